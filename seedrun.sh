#!/bin/bash
# usage: seedrun.sh <seed id> <property to check> [check args]: applies /verif/seeded/<seed>/patch.diff in a scratch
# worktree of /repo and runs the property's quick check against that worktree (never touches /repo)
seed=$1; prop=$2; shift 2
ws=/tmp/ws/run_${seed}_$prop
rm -rf $ws; git -C /repo worktree prune; git -C /repo worktree add -q --detach $ws HEAD || exit 2
(cd $ws && git apply /verif/seeded/$seed/patch.diff) || { echo "patch does not apply"; exit 2; }
vd=/tmp/seedrun/v_${seed}_$prop; rm -rf $vd; mkdir -p $vd; ln -s /verif/harness $vd/harness; cp /verif/known_findings.json $vd/
SYMGO_REPO=$ws VERIF_DIR=$vd ${SYMGO_BIN:-/verif/bin/symgo} check $prop quick "$@" > /tmp/seedrun/${seed}_$prop.log 2>&1
rc=$?
git -C /repo worktree remove --force $ws
echo "seed=$seed prop=$prop exit=$rc"
grep -E "^VIOLATION|^  harness=" /tmp/seedrun/${seed}_$prop.log | cut -c1-260 | head -6
grep -E "^INCONCLUSIVE" /tmp/seedrun/${seed}_$prop.log | cut -c1-200 | head -3
