package sym

import (
	"sync/atomic"
	"bufio"
	"fmt"
	"io"
	"os"
	"os/exec"
	"strconv"
	"strings"
	"time"
)

type Result int

const (
	Sat Result = iota
	Unsat
	Unknown
)

func (r Result) String() string { return [...]string{"sat", "unsat", "unknown"}[r] }

// Solver wraps one long-lived SMT solver process speaking SMT-LIB2 on stdin/stdout.
type Solver struct {
	Kind    string // "z3", "z3-new", "cvc5"
	cmd     *exec.Cmd
	in      io.WriteCloser
	out     *bufio.Reader
	tb      *Table
	defined []bool
	nVars   int
	nUFs    int
	depth   int
	Queries int
	Time    time.Duration
	Errors  []string
	Log     io.Writer
	timeout int // ms (full budget, used by the one-shot fallback)
	floatDecl bool
	frames    [][]*Term // mirror of the assertion stack
	hard      *oneShot
	lastHard  bool
	HardQueries int
	CrossCmd    string // e.g. "z3" or "cvc5 --lang=smt2": re-decides every unsat one-shot query
	CrossChecked, CrossDisagree, CrossUnknown int
	hardIDs     map[string]bool
	HardBin     string // binary for one-shot queries (default z3-new)
	FastMs    int
	wdShort   bool
	Restarts  int // incremental process replaced after it ignored its timeout
}

// oneShot is a second solver process used non-incrementally: z3's incremental core
// (after the first push) is far slower on array-of-bytes equalities than its tactic
// pipeline, so queries the incremental process cannot decide within FastMs are re-posed
// from scratch (cone of influence only) after a (reset).
type oneShot struct {
	cmd  *exec.Cmd
	in   io.WriteCloser
	out  *bufio.Reader
	cone map[int]bool
}

func NewSolver(kind string, tb *Table, timeoutMs int) (*Solver, error) {
	var cmd *exec.Cmd
	switch kind {
	case "z3":
		cmd = exec.Command("z3", "-in")
	case "z3-new":
		cmd = exec.Command("z3-new", "-in")
	case "cvc5":
		cmd = exec.Command("cvc5", "--incremental", "--lang=smt2", fmt.Sprintf("--tlimit-per=%d", timeoutMs))
	default:
		return nil, fmt.Errorf("unknown solver %s", kind)
	}
	in, err := cmd.StdinPipe()
	if err != nil {
		return nil, err
	}
	outp, err := cmd.StdoutPipe()
	if err != nil {
		return nil, err
	}
	cmd.Stderr = cmd.Stdout
	if err := cmd.Start(); err != nil {
		return nil, err
	}
	s := &Solver{Kind: kind, cmd: cmd, in: in, out: bufio.NewReaderSize(outp, 1<<16), tb: tb, timeout: timeoutMs, FastMs: fastMsDefault(), frames: [][]*Term{nil}}
	if p := os.Getenv("SYMGO_SMTLOG"); p != "" {
		f, _ := os.Create(fmt.Sprintf("%s.%d", p, cmd.Process.Pid))
		s.Log = f
	}
	s.send("(set-option :global-declarations true)")
	if kind == "cvc5" {
		s.send("(set-logic QF_UFBV)")
		s.send("(set-option :produce-models true)")
	} else {
		s.send(fmt.Sprintf("(set-option :timeout %d)", s.FastMs))
	}
	return s, nil
}

// restart replaces a wedged or dead incremental solver process by a fresh one and
// re-poses the assertion stack from the mirror kept in frames.
func (s *Solver) restart() error {
	if s.cmd != nil {
		s.in.Close()
		s.cmd.Process.Kill()
		s.cmd.Wait()
	}
	bin := "z3"
	if s.Kind == "z3-new" {
		bin = "z3-new"
	}
	cmd := exec.Command(bin, "-in")
	in, err := cmd.StdinPipe()
	if err != nil {
		return err
	}
	outp, err := cmd.StdoutPipe()
	if err != nil {
		return err
	}
	cmd.Stderr = cmd.Stdout
	if err := cmd.Start(); err != nil {
		return err
	}
	s.cmd, s.in, s.out = cmd, in, bufio.NewReaderSize(outp, 1<<16)
	s.defined, s.nVars, s.nUFs, s.floatDecl = nil, 0, 0, false
	s.Restarts++
	s.send("(set-option :global-declarations true)")
	s.send(fmt.Sprintf("(set-option :timeout %d)", s.FastMs))
	for i, fr := range s.frames {
		if i > 0 {
			s.send("(push 1)")
		}
		for _, t := range fr {
			s.define(t)
			s.send("(assert " + t.ref() + ")")
		}
	}
	s.lastHard = false
	return nil
}

func (s *Solver) Close() {
	if s.hard != nil {
		s.hard.in.Close()
		s.hard.cmd.Process.Kill()
		s.hard.cmd.Wait()
		s.hard = nil
	}
	if s.cmd != nil {
		s.in.Close()
		s.cmd.Process.Kill()
		s.cmd.Wait()
		s.cmd = nil
	}
}

func (s *Solver) send(line string) {
	if s.Log != nil {
		fmt.Fprintln(s.Log, line)
	}
	io.WriteString(s.in, line)
	io.WriteString(s.in, "\n")
}

// define makes sure t (and its subterms) are known to the solver.
func (s *Solver) define(t *Term) {
	// declare new vars / UFs first
	for s.nVars < len(s.tb.Vars) {
		v := s.tb.Vars[s.nVars]
		s.send(fmt.Sprintf("(declare-const %s %s)", v.ref(), sortOf(v.W)))
		s.nVars++
	}
	for s.nUFs < len(s.tb.UFs) {
		s.send(fmt.Sprintf("(declare-fun |arr:%s| ((_ BitVec 64)) (_ BitVec 8))", s.tb.UFs[s.nUFs]))
		s.nUFs++
	}
	if s.tb.UsesFloatConv && !s.floatDecl {
		s.floatDecl = true
		s.send("(declare-fun f32to64 ((_ BitVec 32)) (_ BitVec 64))")
		s.send("(declare-fun f64to32 ((_ BitVec 64)) (_ BitVec 32))")
	}
	for len(s.defined) < len(s.tb.terms) {
		s.defined = append(s.defined, false)
	}
	s.defineRec(t)
}

func (s *Solver) defineRec(t *Term) {
	if t.Op == OpConst || t.Op == OpVar || s.defined[t.ID] {
		return
	}
	// iterative post-order to avoid deep recursion
	type fr struct {
		t *Term
		i int
	}
	stack := []fr{{t, 0}}
	for len(stack) > 0 {
		top := &stack[len(stack)-1]
		if top.i < len(top.t.Args) {
			a := top.t.Args[top.i]
			top.i++
			if a.Op != OpConst && a.Op != OpVar && !s.defined[a.ID] {
				stack = append(stack, fr{a, 0})
			}
			continue
		}
		if !s.defined[top.t.ID] {
			s.send(fmt.Sprintf("(define-fun t%d () %s %s)", top.t.ID, sortOf(top.t.W), top.t.body()))
			s.defined[top.t.ID] = true
		}
		stack = stack[:len(stack)-1]
	}
}

func (s *Solver) Push() {
	s.send("(push 1)")
	s.depth++
	s.frames = append(s.frames, nil)
	s.lastHard = false
}
func (s *Solver) Pop() {
	s.send("(pop 1)")
	s.depth--
	s.frames = s.frames[:len(s.frames)-1]
	s.lastHard = false
}
func (s *Solver) PopTo(d int) {
	if s.depth > d {
		s.send(fmt.Sprintf("(pop %d)", s.depth-d))
		s.frames = s.frames[:len(s.frames)-(s.depth-d)]
		s.depth = d
		s.lastHard = false
	}
}
func (s *Solver) Depth() int { return s.depth }

func (s *Solver) Assert(t *Term) {
	s.define(t)
	s.send("(assert " + t.ref() + ")")
	s.frames[len(s.frames)-1] = append(s.frames[len(s.frames)-1], t)
	s.lastHard = false
}

func (s *Solver) readLine() string {
	line, err := s.out.ReadString('\n')
	if err != nil {
		return "(error \"solver died: " + err.Error() + "\")"
	}
	return strings.TrimSpace(line)
}

// CheckAssert decides an assertion query: these are the large array-equality formulas,
// so they go straight to the one-shot solver.
func (s *Solver) CheckAssert(id string) Result {
	if s.hardIDs == nil {
		s.hardIDs = map[string]bool{}
	}
	if s.hardIDs[id] || s.Kind == "cvc5" {
		s.Queries++
		return s.checkHard()
	}
	// assertion queries are the large array-equality formulas the one-shot solver is meant
	// for; the 400 ms incremental attempt is only a shortcut, so a process that ignores
	// that budget is given 15 s, not minutes
	s.send("(set-option :timeout 400)")
	s.wdShort = true
	r := s.checkFast()
	s.wdShort = false
	s.send(fmt.Sprintf("(set-option :timeout %d)", s.FastMs))
	if r == Unknown {
		s.hardIDs[id] = true
		r = s.checkHard()
	}
	return r
}

func (s *Solver) Check() Result {
	r := s.checkFast()
	if r == Unknown && s.Kind != "cvc5" {
		r = s.checkHard()
	}
	return r
}

func (s *Solver) checkHard() Result {
	start := time.Now()
	s.HardQueries++
	if s.hard == nil {
		bin := s.HardBin
		if bin == "" {
			bin = "z3-new"
		}
		cmd := exec.Command(bin, "-in")
		in, err := cmd.StdinPipe()
		if err != nil {
			return Unknown
		}
		outp, err := cmd.StdoutPipe()
		if err != nil {
			return Unknown
		}
		cmd.Stderr = cmd.Stdout
		if cmd.Start() != nil {
			return Unknown
		}
		s.hard = &oneShot{cmd: cmd, in: in, out: bufio.NewReaderSize(outp, 1<<16)}
	}
	h := s.hard
	var sb strings.Builder
	sb.WriteString("(reset)\n")
	fmt.Fprintf(&sb, "(set-option :timeout %d)\n", s.timeout)
	// cone of influence
	h.cone = map[int]bool{}
	var order []*Term
	var visit func(t *Term)
	visit = func(t *Term) {
		if h.cone[t.ID] {
			return
		}
		h.cone[t.ID] = true
		for _, a := range t.Args {
			visit(a)
		}
		order = append(order, t)
	}
	var asserts []*Term
	for _, fr := range s.frames {
		for _, t := range fr {
			visit(t)
			asserts = append(asserts, t)
		}
	}
	ufs := map[string]bool{}
	floats := false
	for _, t := range order {
		switch t.Op {
		case OpVar:
			fmt.Fprintf(&sb, "(declare-const %s %s)\n", t.ref(), sortOf(t.W))
		case OpSelect:
			if !ufs[t.Name] {
				ufs[t.Name] = true
				fmt.Fprintf(&sb, "(declare-fun |arr:%s| ((_ BitVec 64)) (_ BitVec 8))\n", t.Name)
			}
		case OpF32to64, OpF64to32:
			if !floats {
				floats = true
				sb.WriteString("(declare-fun f32to64 ((_ BitVec 32)) (_ BitVec 64))\n(declare-fun f64to32 ((_ BitVec 64)) (_ BitVec 32))\n")
			}
		}
		if t.Op != OpConst && t.Op != OpVar {
			fmt.Fprintf(&sb, "(define-fun t%d () %s %s)\n", t.ID, sortOf(t.W), t.body())
		}
	}
	for _, t := range asserts {
		sb.WriteString("(assert " + t.ref() + ")\n")
	}
	script := sb.String()
	sb.WriteString("(check-sat)\n")
	io.WriteString(h.in, sb.String())
	var r Result = Unknown
	for {
		line, err := h.out.ReadString('\n')
		if err != nil {
			s.Errors = append(s.Errors, "(error \"one-shot solver died\")")
			h.cmd.Process.Kill()
			h.cmd.Wait()
			s.hard = nil
			break
		}
		line = strings.TrimSpace(line)
		if line == "" {
			continue
		}
		if line == "sat" {
			r = Sat
		} else if line == "unsat" {
			r = Unsat
		} else if line == "unknown" {
			r = Unknown
		} else if strings.HasPrefix(line, "(error") {
			s.Errors = append(s.Errors, "one-shot: "+line)
			continue
		} else {
			continue
		}
		break
	}
	if r == Unsat && s.CrossCmd != "" {
		// second opinion from an independent solver on the same cone-of-influence script
		s.CrossChecked++
		switch crossCheck(s.CrossCmd, script) {
		case Sat:
			s.CrossDisagree++
			s.Errors = append(s.Errors, "(error \"cross-check solver "+s.CrossCmd+" answered sat where the primary answered unsat\")")
			r = Unknown
		case Unknown:
			s.CrossUnknown++
		}
	}
	s.lastHard = r == Sat
	d := time.Since(start)
	s.Time += d
	if d > 5*time.Second && os.Getenv("SYMGO_SLOW") != "" {
		fmt.Fprintf(os.Stderr, "    slow one-shot query %.1fs -> %s\n", d.Seconds(), r)
	}
	return r
}

func (s *Solver) wdBudget() time.Duration {
	if s.wdShort {
		return 15 * time.Second
	}
	return time.Duration(s.FastMs)*time.Millisecond*4 + 180*time.Second
}

func (s *Solver) checkFast() Result {
	start := time.Now()
	s.send("(check-sat)")
	s.Queries++
	var r Result = Unknown
	// z3 4.8.12 sometimes ignores :timeout (it is not polled during preprocessing): a
	// watchdog kills the process well after the budget; the answer is then "unknown" and
	// the process is replaced
	var wedged atomic.Bool
	proc := s.cmd.Process
	var wd *time.Timer
	if s.Kind != "cvc5" {
		wd = time.AfterFunc(s.wdBudget(), func() { wedged.Store(true); err := proc.Kill(); if os.Getenv("SYMGO_SLOW") != "" { fmt.Fprintln(os.Stderr, "    watchdog: killed wedged solver", proc.Pid, err) } })
	}
	for {
		line := s.readLine()
		if wedged.Load() {
			s.Time += time.Since(start)
			if err := s.restart(); err != nil {
				s.Errors = append(s.Errors, "(error \"solver restart failed: "+err.Error()+"\")")
			}
			return Unknown
		}
		if line == "" {
			continue
		}
		switch {
		case line == "sat":
			r = Sat
		case line == "unsat":
			r = Unsat
		case line == "unknown" || strings.HasPrefix(line, "timeout"):
			r = Unknown
		case strings.HasPrefix(line, "(error"):
			s.Errors = append(s.Errors, line)
			if strings.Contains(line, "solver died") {
				s.Time += time.Since(start)
				return Unknown
			}
			continue
		default:
			// warnings etc.
			s.Errors = append(s.Errors, "unexpected: "+line)
			continue
		}
		break
	}
	if wd != nil && !wd.Stop() {
		// the watchdog fired just as the answer arrived: the process is gone
		s.restart()
	}
	s.Time += time.Since(start)
	if d := time.Since(start); d > 5*time.Second && os.Getenv("SYMGO_SLOW") != "" {
		fmt.Fprintf(os.Stderr, "    slow query %.1fs -> %s\n", d.Seconds(), r)
	}
	if len(s.Errors) > 0 && r != Unknown {
		// any error line makes the answer untrustworthy
		r = Unknown
	}
	return r
}

// readSexp reads one balanced s-expression from the solver.
func (s *Solver) readSexp() string {
	var sb strings.Builder
	depth := 0
	started := false
	inBar := false
	for {
		c, err := s.out.ReadByte()
		if err != nil {
			return sb.String()
		}
		if !started {
			if c == ' ' || c == '\n' || c == '\r' || c == '\t' {
				continue
			}
			started = true
		}
		sb.WriteByte(c)
		if c == '|' {
			inBar = !inBar
		}
		if inBar {
			continue
		}
		if c == '(' {
			depth++
		} else if c == ')' {
			depth--
			if depth == 0 {
				return sb.String()
			}
		} else if depth == 0 && (c == '\n') {
			return strings.TrimSpace(sb.String())
		}
	}
}

func parseBV(tok string) (uint64, bool) {
	tok = strings.TrimSpace(tok)
	switch {
	case strings.HasPrefix(tok, "#x"):
		v, err := strconv.ParseUint(tok[2:], 16, 64)
		return v, err == nil
	case strings.HasPrefix(tok, "#b"):
		v, err := strconv.ParseUint(tok[2:], 2, 64)
		return v, err == nil
	case tok == "true":
		return 1, true
	case tok == "false":
		return 0, true
	case strings.HasPrefix(tok, "(_ bv"):
		f := strings.Fields(tok[5:])
		v, err := strconv.ParseUint(f[0], 10, 64)
		return v, err == nil
	}
	return 0, false
}

// GetValues evaluates terms in the current (sat) model.
func (s *Solver) GetValues(ts []*Term) ([]uint64, error) {
	if s.lastHard && s.hard != nil {
		return s.getValuesHard(ts)
	}
	res := make([]uint64, len(ts))
	const batch = 200
	for i := 0; i < len(ts); i += batch {
		j := i + batch
		if j > len(ts) {
			j = len(ts)
		}
		var sb strings.Builder
		sb.WriteString("(get-value (")
		for _, t := range ts[i:j] {
			s.define(t)
			sb.WriteString(t.ref())
			sb.WriteString(" ")
		}
		sb.WriteString("))")
		s.send(sb.String())
		resp := s.readSexp()
		if strings.HasPrefix(resp, "(error") {
			return nil, fmt.Errorf("get-value: %s", resp)
		}
		vals, err := parseValuePairs(resp)
		if err != nil {
			return nil, err
		}
		if len(vals) != j-i {
			return nil, fmt.Errorf("get-value: expected %d values, got %d in %q", j-i, len(vals), resp)
		}
		copy(res[i:j], vals)
	}
	return res, nil
}

// parseValuePairs parses "((e1 v1) (e2 v2) ...)" returning v's.
func parseValuePairs(s string) ([]uint64, error) {
	var vals []uint64
	s = strings.TrimSpace(s)
	if len(s) < 2 {
		return nil, fmt.Errorf("bad get-value response %q", s)
	}
	s = s[1 : len(s)-1]
	// split top-level pairs
	depth := 0
	start := -1
	inBar := false
	for i := 0; i < len(s); i++ {
		c := s[i]
		if c == '|' {
			inBar = !inBar
		}
		if inBar {
			continue
		}
		if c == '(' {
			if depth == 0 {
				start = i
			}
			depth++
		} else if c == ')' {
			depth--
			if depth == 0 {
				pair := s[start+1 : i]
				// value is the last token or last parenthesised group
				pair = strings.TrimSpace(pair)
				var vtok string
				if strings.HasSuffix(pair, ")") {
					// find matching open
					d := 0
					k := len(pair) - 1
					for ; k >= 0; k-- {
						if pair[k] == ')' {
							d++
						} else if pair[k] == '(' {
							d--
							if d == 0 {
								break
							}
						}
					}
					vtok = pair[k:]
				} else {
					k := strings.LastIndexAny(pair, " \t\n")
					vtok = pair[k+1:]
				}
				v, ok := parseBV(vtok)
				if !ok {
					return nil, fmt.Errorf("cannot parse value %q", vtok)
				}
				vals = append(vals, v)
			}
		}
	}
	return vals, nil
}

// InCone reports whether the value of t is determined by the last (one-shot) query.
func (s *Solver) InCone(t *Term) bool {
	if s.lastHard && s.hard != nil {
		return t.Op == OpConst || s.hard.cone[t.ID]
	}
	return true
}

func (s *Solver) getValuesHard(ts []*Term) ([]uint64, error) {
	h := s.hard
	res := make([]uint64, len(ts))
	var idx []int
	for i, t := range ts {
		if t.Op == OpConst {
			res[i] = t.Val
		} else if h.cone[t.ID] {
			idx = append(idx, i)
		}
	}
	const batch = 200
	for a := 0; a < len(idx); a += batch {
		b := a + batch
		if b > len(idx) {
			b = len(idx)
		}
		var sb strings.Builder
		sb.WriteString("(get-value (")
		for _, i := range idx[a:b] {
			sb.WriteString(ts[i].ref())
			sb.WriteString(" ")
		}
		sb.WriteString("))\n")
		io.WriteString(h.in, sb.String())
		saved := s.out
		s.out = h.out
		resp := s.readSexp()
		s.out = saved
		if strings.HasPrefix(resp, "(error") {
			return nil, fmt.Errorf("get-value(one-shot): %s", resp)
		}
		vals, err := parseValuePairs(resp)
		if err != nil {
			return nil, err
		}
		if len(vals) != b-a {
			return nil, fmt.Errorf("get-value(one-shot): expected %d values, got %d", b-a, len(vals))
		}
		for k, i := range idx[a:b] {
			res[i] = vals[k]
		}
	}
	return res, nil
}

// crossCheck runs an independent solver process on a complete script.
func crossCheck(cmdline, script string) Result {
	f, err := os.CreateTemp("", "symgo-cross-*.smt2")
	if err != nil {
		return Unknown
	}
	defer os.Remove(f.Name())
	body := strings.Replace(script, "(reset)\n", "", 1)
	if strings.HasPrefix(cmdline, "cvc5") {
		body = "(set-logic QF_UFBV)\n" + strings.Replace(body, "(set-option :timeout", "(set-info :timeout", 1)
	}
	f.WriteString(body + "(check-sat)\n")
	f.Close()
	parts := strings.Fields(cmdline)
	args := append(parts[1:], f.Name())
	cmd := exec.Command(parts[0], args...)
	done := make(chan []byte, 1)
	go func() { b, _ := cmd.CombinedOutput(); done <- b }()
	select {
	case b := <-done:
		for _, line := range strings.Split(string(b), "\n") {
			switch strings.TrimSpace(line) {
			case "sat":
				return Sat
			case "unsat":
				return Unsat
			}
		}
		return Unknown
	case <-time.After(60 * time.Second):
		cmd.Process.Kill()
		return Unknown
	}
}

func fastMsDefault() int {
	if v := os.Getenv("SYMGO_FASTMS"); v != "" {
		if n, err := strconv.Atoi(v); err == nil && n > 0 {
			return n
		}
	}
	return 1500
}
