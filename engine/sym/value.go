package sym

import (
	"fmt"
	"go/types"

	"golang.org/x/tools/go/ssa"
)

// Value is one of:
//   *Term        integers (BV), bools (W==0), floats as IEEE bit patterns
//   *Ptr         pointer (nil pointer: Obj == nil)
//   *Slice       slice (nil slice: Obj == nil)
//   *Str         string
//   *Iface       interface value (nil: Typ == nil)
//   *StructVal   struct value
//   *ArrayVal    array value
//   *Closure     function value (nil func: Fn == nil && Native == nil)
//   *MapRef      map (nil map: Obj == nil)
//   Tuple        multiple results
//   *PValue      protoreflect.Value / MapKey model
//   *Opaque      opaque environment object
type Value interface{}

type Tuple []Value

type ObjKind int

const (
	ObjCell  ObjKind = iota // single value (scalar, struct, array value ...)
	ObjCells                // backing store of a non-byte slice / array: concrete cells
	ObjBytes                // backing store of []byte: symbolic content
	ObjMap
)

type MapEntry struct {
	Key Value
	Val Value
}

type Obj struct {
	ID    int
	Kind  ObjKind
	Typ   types.Type // element type for Cells/Bytes; value type for Cell; map type for Map
	Val   Value      // ObjCell
	Cells []Value    // ObjCells
	Bytes ArrExpr    // ObjBytes
	Cap   *Term      // ObjBytes / ObjCells capacity (BV64)
	Ents  []*MapEntry
	Epoch int
	Label string
	// Global marks package-level variables
	Global *ssa.Global
}

type Ptr struct {
	Obj  *Obj
	Path []int // field / array / cell indices
	BIdx *Term // byte index for ObjBytes
}

func (p *Ptr) IsNil() bool { return p.Obj == nil }

type Slice struct {
	Obj *Obj
	Off *Term
	Len *Term
	Cap *Term
	// MaxLen, if >= 0, is a static upper bound on Len known to the harness
	MaxLen int
}

type Str struct {
	Arr    ArrExpr
	Off    *Term
	Len    *Term
	MaxLen int // static upper bound on Len, -1 unknown
}

type Iface struct {
	Typ types.Type
	Val Value
}

type StructVal struct {
	Typ    types.Type
	Fields []Value
}

type ArrayVal struct {
	Typ   types.Type
	Elems []Value
}

type Closure struct {
	Fn     *ssa.Function
	Free   []Value
	Native func(e *Exec, args []Value) Value
	Name   string
}

type MapRef struct {
	Obj *Obj
}

// PValue models protoreflect.Value and protoreflect.MapKey.
type PValue struct {
	Kind string // "", "bool","int32","int64","uint32","uint64","float32","float64","string","bytes","enum","message","list","map"
	V    Value
}

// Opaque is an environment object whose methods are handled natively.
type Opaque struct {
	Class string
	ID    int
	Attrs map[string]Value
	Name  string
}

// ---------- byte-array expressions ----------

type ArrExpr interface{}

type arrSym struct{ name string }
type arrConst struct{ data string } // zero beyond
type arrStore struct {
	base ArrExpr
	idx  *Term
	val  *Term
}
type arrCopy struct {
	base   ArrExpr
	dst    *Term // destination start index
	n      *Term // number of bytes
	src    ArrExpr
	srcOff *Term
}

func (e *Exec) readArr(a ArrExpr, k *Term) *Term {
	tb := e.tb
	switch a := a.(type) {
	case nil:
		return tb.Const(8, 0)
	case *arrSym:
		return tb.Select(a.name, k)
	case *arrConst:
		if k.IsConst() {
			if k.Val < uint64(len(a.data)) {
				return tb.Const(8, uint64(a.data[k.Val]))
			}
			return tb.Const(8, 0)
		}
		// compress into ranges of equal values
		res := tb.Const(8, 0)
		n := len(a.data)
		if n > 4096 {
			e.unsupported("symbolic index into constant table of %d bytes", n)
		}
		i := n
		for i > 0 {
			j := i - 1
			for j > 0 && a.data[j-1] == a.data[i-1] {
				j--
			}
			// range [j, i)
			v := tb.Const(8, uint64(a.data[i-1]))
			var c *Term
			if i-j == 1 {
				c = tb.Eq(k, tb.Const(64, uint64(j)))
			} else {
				c = tb.And(tb.Ule(tb.Const(64, uint64(j)), k), tb.Ult(k, tb.Const(64, uint64(i))))
			}
			res = tb.Ite(c, v, res)
			i = j
		}
		return res
	case *arrStore:
		c := tb.Eq(a.idx, k)
		if c.IsTrue() {
			return a.val
		}
		rest := e.readArr(a.base, k)
		return tb.Ite(c, a.val, rest)
	case *arrCopy:
		in := tb.And(tb.Sle(a.dst, k), tb.Slt(k, tb.Add(a.dst, a.n)))
		if in.IsFalse() {
			return e.readArr(a.base, k)
		}
		sv := e.readArr(a.src, tb.Add(tb.Sub(k, a.dst), a.srcOff))
		if in.IsTrue() {
			return sv
		}
		return tb.Ite(in, sv, e.readArr(a.base, k))
	}
	panic(fmt.Sprintf("readArr: %T", a))
}

// ---------- helpers ----------

func isByteType(t types.Type) bool {
	b, ok := t.Underlying().(*types.Basic)
	return ok && (b.Kind() == types.Uint8)
}

func typeWidth(t types.Type) int {
	switch u := t.Underlying().(type) {
	case *types.Basic:
		switch u.Kind() {
		case types.Bool, types.UntypedBool:
			return 0
		case types.Int8, types.Uint8:
			return 8
		case types.Int16, types.Uint16:
			return 16
		case types.Int32, types.Uint32, types.Float32, types.UntypedRune:
			return 32
		case types.Int, types.Uint, types.Int64, types.Uint64, types.Uintptr, types.Float64, types.UntypedInt, types.UntypedFloat:
			return 64
		}
	}
	return -1
}

func isSigned(t types.Type) bool {
	if b, ok := t.Underlying().(*types.Basic); ok {
		return b.Info()&types.IsInteger != 0 && b.Info()&types.IsUnsigned == 0
	}
	return false
}
func isFloat(t types.Type) bool {
	if b, ok := t.Underlying().(*types.Basic); ok {
		return b.Info()&types.IsFloat != 0
	}
	return false
}
func isString(t types.Type) bool {
	if b, ok := t.Underlying().(*types.Basic); ok {
		return b.Info()&types.IsString != 0
	}
	return false
}
func isInteger(t types.Type) bool {
	if b, ok := t.Underlying().(*types.Basic); ok {
		return b.Info()&types.IsInteger != 0
	}
	return false
}

func namedPath(t types.Type) string {
	if n, ok := t.(*types.Named); ok {
		if n.Obj().Pkg() != nil {
			return n.Obj().Pkg().Path() + "." + n.Obj().Name()
		}
		return n.Obj().Name()
	}
	return ""
}

func (e *Exec) zero(t types.Type) Value {
	switch namedPath(t) {
	case "google.golang.org/protobuf/reflect/protoreflect.Value", "google.golang.org/protobuf/reflect/protoreflect.MapKey":
		return &PValue{}
	}
	switch u := t.Underlying().(type) {
	case *types.Basic:
		if u.Info()&types.IsString != 0 {
			return e.constStr("")
		}
		if u.Kind() == types.UnsafePointer {
			return &Ptr{}
		}
		w := typeWidth(t)
		if w < 0 {
			e.unsupported("zero of basic type %s", t)
		}
		return e.tb.Const(w, 0)
	case *types.Pointer:
		return &Ptr{}
	case *types.Slice:
		return &Slice{Off: e.c64(0), Len: e.c64(0), Cap: e.c64(0), MaxLen: 0}
	case *types.Map:
		return &MapRef{}
	case *types.Interface:
		return &Iface{}
	case *types.Signature:
		return &Closure{}
	case *types.Struct:
		sv := &StructVal{Typ: t, Fields: make([]Value, u.NumFields())}
		for i := 0; i < u.NumFields(); i++ {
			sv.Fields[i] = e.zero(u.Field(i).Type())
		}
		return sv
	case *types.Array:
		if u.Len() > 1<<16 {
			e.unsupported("huge array %s", t)
		}
		av := &ArrayVal{Typ: t, Elems: make([]Value, u.Len())}
		for i := range av.Elems {
			av.Elems[i] = e.zero(u.Elem())
		}
		return av
	case *types.Chan:
		return &Ptr{}
	case *types.Tuple:
		tu := make(Tuple, u.Len())
		for i := range tu {
			tu[i] = e.zero(u.At(i).Type())
		}
		return tu
	}
	e.unsupported("zero of type %s (%T)", t, t.Underlying())
	return nil
}

// copyVal deep-copies aggregate values (value semantics).
func copyVal(v Value) Value {
	switch v := v.(type) {
	case *StructVal:
		n := &StructVal{Typ: v.Typ, Fields: make([]Value, len(v.Fields))}
		for i, f := range v.Fields {
			n.Fields[i] = copyVal(f)
		}
		return n
	case *ArrayVal:
		n := &ArrayVal{Typ: v.Typ, Elems: make([]Value, len(v.Elems))}
		for i, f := range v.Elems {
			n.Elems[i] = copyVal(f)
		}
		return n
	case Tuple:
		n := make(Tuple, len(v))
		for i, f := range v {
			n[i] = copyVal(f)
		}
		return n
	}
	return v
}

func (e *Exec) c64(v int64) *Term { return e.tb.Const(64, uint64(v)) }

func (e *Exec) constStr(s string) *Str {
	return &Str{Arr: &arrConst{data: s}, Off: e.c64(0), Len: e.c64(int64(len(s))), MaxLen: len(s)}
}

// concreteStr returns the Go string if the value is fully concrete.
func (e *Exec) concreteStr(s *Str) (string, bool) {
	if !s.Len.IsConst() || !s.Off.IsConst() {
		return "", false
	}
	n := int(s.Len.Val)
	if c, ok := s.Arr.(*arrConst); ok {
		off := int(s.Off.Val)
		if off+n <= len(c.data) {
			return c.data[off : off+n], true
		}
	}
	if n > 1<<16 {
		return "", false
	}
	buf := make([]byte, n)
	for i := 0; i < n; i++ {
		t := e.readArr(s.Arr, e.tb.Add(s.Off, e.c64(int64(i))))
		if !t.IsConst() {
			return "", false
		}
		buf[i] = byte(t.Val)
	}
	return string(buf), true
}

func (e *Exec) newObj(kind ObjKind, t types.Type) *Obj {
	e.nextObj++
	o := &Obj{ID: e.nextObj, Kind: kind, Typ: t, Epoch: e.epoch}
	return o
}

func (e *Exec) strAt(s *Str, i *Term) *Term { return e.readArr(s.Arr, e.tb.Add(s.Off, i)) }

func (e *Exec) sliceByteAt(s *Slice, i *Term) *Term {
	return e.readArr(s.Obj.Bytes, e.tb.Add(s.Off, i))
}
