package sym

import (
	"fmt"
	"go/token"
	"go/types"

	"golang.org/x/tools/go/ssa"
)

func (e *Exec) exec(fr *frame, instr ssa.Instruction) {
	switch in := instr.(type) {
	case *ssa.DebugRef:
	case *ssa.Alloc:
		elem := in.Type().(*types.Pointer).Elem()
		fr.env[in] = e.allocValue(elem, in.Comment)
	case *ssa.Store:
		addr := e.eval(fr, in.Addr)
		val := e.eval(fr, in.Val)
		e.store(addr, val, e.pos2(in.Pos()))
	case *ssa.UnOp:
		fr.env[in] = e.unop(fr, in)
	case *ssa.BinOp:
		x := e.eval(fr, in.X)
		y := e.eval(fr, in.Y)
		fr.env[in] = e.binop(in.Op, x, y, in.X.Type(), in.Y.Type())
	case *ssa.Convert:
		fr.env[in] = e.convert(e.eval(fr, in.X), in.X.Type(), in.Type())
	case *ssa.ChangeType:
		fr.env[in] = e.eval(fr, in.X)
	case *ssa.ChangeInterface:
		fr.env[in] = e.eval(fr, in.X)
	case *ssa.MakeInterface:
		fr.env[in] = &Iface{Typ: in.X.Type(), Val: e.eval(fr, in.X)}
	case *ssa.TypeAssert:
		fr.env[in] = e.typeAssert(e.eval(fr, in.X), in)
	case *ssa.FieldAddr:
		p := e.asPtr(e.eval(fr, in.X))
		if p.Obj == nil {
			panic(&goPanic{kind: "nil", detail: "field address of nil pointer at " + e.pos2(in.Pos())})
		}
		fr.env[in] = &Ptr{Obj: p.Obj, Path: appendPath(p.Path, in.Field), BIdx: p.BIdx}
	case *ssa.Field:
		v := e.eval(fr, in.X)
		sv, ok := v.(*StructVal)
		if !ok {
			e.unsupported("Field on %T", v)
		}
		fr.env[in] = copyVal(sv.Fields[in.Field])
	case *ssa.IndexAddr:
		fr.env[in] = e.indexAddr(e.eval(fr, in.X), e.eval(fr, in.Index).(*Term), in.Index.Type(), e.pos2(in.Pos()))
	case *ssa.Index:
		fr.env[in] = e.index(e.eval(fr, in.X), e.eval(fr, in.Index).(*Term), in.Index.Type(), e.pos2(in.Pos()))
	case *ssa.Slice:
		fr.env[in] = e.sliceOp(fr, in)
	case *ssa.MakeSlice:
		fr.env[in] = e.makeSlice(in.Type(), e.toInt(e.eval(fr, in.Len), in.Len.Type()), e.toInt(e.eval(fr, in.Cap), in.Cap.Type()), e.pos2(in.Pos()))
	case *ssa.MakeMap:
		o := e.newObj(ObjMap, in.Type())
		fr.env[in] = &MapRef{Obj: o}
	case *ssa.MakeClosure:
		c := &Closure{Fn: in.Fn.(*ssa.Function)}
		for _, b := range in.Bindings {
			c.Free = append(c.Free, e.eval(fr, b))
		}
		fr.env[in] = c
	case *ssa.MapUpdate:
		e.mapUpdate(e.eval(fr, in.Map), e.eval(fr, in.Key), e.eval(fr, in.Value), e.pos2(in.Pos()))
	case *ssa.Lookup:
		x := e.eval(fr, in.X)
		if s, ok := x.(*Str); ok {
			fr.env[in] = e.index(s, e.eval(fr, in.Index).(*Term), in.Index.Type(), e.pos2(in.Pos()))
			return
		}
		fr.env[in] = e.mapLookup(x.(*MapRef), e.eval(fr, in.Index), in.Type(), in.CommaOk)
	case *ssa.Range:
		fr.env[in] = e.rangeStart(e.eval(fr, in.X))
	case *ssa.Next:
		fr.env[in] = e.rangeNext(e.eval(fr, in.Iter), in)
	case *ssa.Extract:
		t := e.eval(fr, in.Tuple)
		if p, ok := t.(*Poison); ok {
			fr.env[in] = p
			return
		}
		fr.env[in] = t.(Tuple)[in.Index]
	case *ssa.Call:
		fr.env[in] = e.doCall(fr, &in.Call, in)
	case *ssa.Defer:
		call := in.Call
		fn, args, free, iface := e.resolveCall(fr, &call)
		cc := &in.Call
		fr.defers = append(fr.defers, func() { e.invoke(fn, args, free, iface, cc) })
	case *ssa.RunDefers:
		for i := len(fr.defers) - 1; i >= 0; i-- {
			d := fr.defers[i]
			fr.defers = fr.defers[:i]
			d()
		}
	case *ssa.Go, *ssa.Select, *ssa.Send, *ssa.MakeChan:
		e.unsupported("concurrency instruction %T", instr)
	default:
		e.unsupported("instruction %T: %s", instr, instr)
	}
}

func appendPath(p []int, i int) []int {
	n := make([]int, len(p)+1)
	copy(n, p)
	n[len(p)] = i
	return n
}

func (e *Exec) asPtr(v Value) *Ptr {
	switch v := v.(type) {
	case *Ptr:
		return v
	case *Poison:
		e.unsupported("use of value package init could not compute: %s", v.Why)
	}
	e.unsupported("expected pointer, got %T", v)
	return nil
}

// allocValue allocates storage for a value of type t and returns a pointer.
func (e *Exec) allocValue(t types.Type, label string) *Ptr {
	if at, ok := t.Underlying().(*types.Array); ok {
		if isByteType(at.Elem()) {
			o := e.newObj(ObjBytes, at.Elem())
			o.Cap = e.c64(at.Len())
			o.Label = label
			return &Ptr{Obj: o}
		}
		o := e.newObj(ObjCells, at.Elem())
		o.Cap = e.c64(at.Len())
		o.Cells = make([]Value, at.Len())
		for i := range o.Cells {
			o.Cells[i] = e.zero(at.Elem())
		}
		o.Label = label
		return &Ptr{Obj: o}
	}
	o := e.newObj(ObjCell, t)
	o.Val = e.zero(t)
	o.Label = label
	return &Ptr{Obj: o}
}

// ---------- memory ----------

func (e *Exec) navigate(p *Ptr, create bool) (parent *Value, ok bool) {
	return nil, false
}

func (e *Exec) load(pv Value, pos string) Value {
	p := e.asPtr(pv)
	if p.Obj == nil {
		panic(&goPanic{kind: "nil", detail: "nil pointer dereference at " + pos})
	}
	o := p.Obj
	switch o.Kind {
	case ObjBytes:
		if p.BIdx != nil {
			return e.readArr(o.Bytes, p.BIdx)
		}
		// whole array value
		n := int(o.Cap.Val)
		av := &ArrayVal{Elems: make([]Value, n)}
		for i := 0; i < n; i++ {
			av.Elems[i] = e.readArr(o.Bytes, e.c64(int64(i)))
		}
		return av
	case ObjCells:
		if len(p.Path) == 0 {
			av := &ArrayVal{Elems: make([]Value, len(o.Cells))}
			for i, c := range o.Cells {
				av.Elems[i] = copyVal(c)
			}
			return av
		}
		if p.Path[0] >= len(o.Cells) {
			e.unsupported("cell index %d beyond realised cells %d", p.Path[0], len(o.Cells))
		}
		v := o.Cells[p.Path[0]]
		return copyVal(e.walk(v, p.Path[1:]))
	case ObjCell:
		return copyVal(e.walk(o.Val, p.Path))
	}
	e.unsupported("load from object kind %d", o.Kind)
	return nil
}

func (e *Exec) walk(v Value, path []int) Value {
	for _, i := range path {
		switch a := v.(type) {
		case *StructVal:
			v = a.Fields[i]
		case *ArrayVal:
			v = a.Elems[i]
		case *Poison:
			e.unsupported("use of value package init could not compute: %s", a.Why)
		default:
			e.unsupported("walk into %T", v)
		}
	}
	return v
}

func (e *Exec) recordWrite(o *Obj, site string) {
	if e.track && o.Epoch < e.epoch {
		e.writes = append(e.writes, writeRec{o, site})
	}
}

func (e *Exec) store(pv Value, val Value, site string) {
	p := e.asPtr(pv)
	if p.Obj == nil {
		panic(&goPanic{kind: "nil", detail: "store through nil pointer at " + site})
	}
	o := p.Obj
	e.recordWrite(o, site)
	val = copyVal(val)
	switch o.Kind {
	case ObjBytes:
		if p.BIdx != nil {
			o.Bytes = &arrStore{base: o.Bytes, idx: p.BIdx, val: val.(*Term)}
			return
		}
		av, ok := val.(*ArrayVal)
		if !ok {
			e.unsupported("store of %T into byte array", val)
		}
		var a ArrExpr
		for i, x := range av.Elems {
			a = &arrStore{base: a, idx: e.c64(int64(i)), val: x.(*Term)}
		}
		o.Bytes = a
	case ObjCells:
		if len(p.Path) == 0 {
			av := val.(*ArrayVal)
			copy(o.Cells, av.Elems)
			return
		}
		if p.Path[0] >= len(o.Cells) {
			e.unsupported("cell index %d beyond realised cells %d", p.Path[0], len(o.Cells))
		}
		if len(p.Path) == 1 {
			o.Cells[p.Path[0]] = val
			return
		}
		e.setIn(o.Cells[p.Path[0]], p.Path[1:], val)
	case ObjCell:
		if len(p.Path) == 0 {
			o.Val = val
			return
		}
		e.setIn(o.Val, p.Path, val)
	default:
		e.unsupported("store to object kind %d", o.Kind)
	}
}

func (e *Exec) setIn(root Value, path []int, val Value) {
	v := e.walk(root, path[:len(path)-1])
	i := path[len(path)-1]
	switch a := v.(type) {
	case *StructVal:
		a.Fields[i] = val
	case *ArrayVal:
		a.Elems[i] = val
	default:
		e.unsupported("setIn %T", v)
	}
}

// ---------- unary / binary ----------

func (e *Exec) unop(fr *frame, in *ssa.UnOp) Value {
	x := e.eval(fr, in.X)
	if p, ok := x.(*Poison); ok {
		e.unsupported("use of value package init could not compute: %s", p.Why)
	}
	switch in.Op {
	case token.MUL:
		return e.load(x, e.pos2(in.Pos()))
	case token.NOT:
		return e.tb.Not(x.(*Term))
	case token.SUB:
		t := x.(*Term)
		if isFloat(in.X.Type()) {
			return e.tb.BvXor(t, e.tb.Const(t.W, uint64(1)<<uint(t.W-1)))
		}
		return e.tb.Neg(t)
	case token.XOR:
		return e.tb.BvNot(x.(*Term))
	}
	e.unsupported("unary op %s", in.Op)
	return nil
}

// toInt converts an integer term of Go type t to a 64-bit int term.
func (e *Exec) toInt(v Value, t types.Type) *Term {
	x, ok := v.(*Term)
	if !ok {
		e.unsupported("expected integer, got %T", v)
	}
	if x.W == 64 {
		return x
	}
	if isSigned(t) {
		return e.tb.Sext(x, 64)
	}
	return e.tb.Zext(x, 64)
}

func (e *Exec) floatIsZero(t *Term) *Term {
	// +0 or -0: all bits except sign are zero
	if t.Op == OpF32to64 {
		return e.floatIsZero(t.Args[0])
	}
	return e.tb.Eq(e.tb.Shl(t, e.tb.Const(t.W, 1)), e.tb.Const(t.W, 0))
}

func (e *Exec) binop(op token.Token, x, y Value, xt, yt types.Type) Value {
	tb := e.tb
	if p, ok := x.(*Poison); ok {
		e.unsupported("use of value package init could not compute: %s", p.Why)
	}
	if p, ok := y.(*Poison); ok {
		e.unsupported("use of value package init could not compute: %s", p.Why)
	}
	switch a := x.(type) {
	case *Term:
		b, ok := y.(*Term)
		if !ok {
			e.unsupported("binop %s on %T and %T", op, x, y)
		}
		if isFloat(xt) {
			return e.floatBinop(op, a, b)
		}
		signed := isSigned(xt)
		switch op {
		case token.ADD:
			return tb.Add(a, b)
		case token.SUB:
			return tb.Sub(a, b)
		case token.MUL:
			return tb.Mul(a, b)
		case token.QUO, token.REM:
			e.check(tb.Ne(b, tb.Const(b.W, 0)), "divide", "integer divide by zero")
			if op == token.QUO {
				if signed {
					return tb.Sdiv(a, b)
				}
				return tb.Udiv(a, b)
			}
			if signed {
				return tb.Srem(a, b)
			}
			return tb.Urem(a, b)
		case token.AND:
			if a.W == 0 {
				return tb.And(a, b)
			}
			return tb.BvAnd(a, b)
		case token.OR:
			if a.W == 0 {
				return tb.Or(a, b)
			}
			return tb.BvOr(a, b)
		case token.XOR:
			return tb.BvXor(a, b)
		case token.AND_NOT:
			return tb.BvAnd(a, tb.BvNot(b))
		case token.SHL, token.SHR:
			return e.shift(op, a, b, signed, isSigned(yt))
		case token.EQL:
			return tb.Eq(a, b)
		case token.NEQ:
			return tb.Ne(a, b)
		case token.LSS:
			if signed {
				return tb.Slt(a, b)
			}
			return tb.Ult(a, b)
		case token.LEQ:
			if signed {
				return tb.Sle(a, b)
			}
			return tb.Ule(a, b)
		case token.GTR:
			if signed {
				return tb.Slt(b, a)
			}
			return tb.Ult(b, a)
		case token.GEQ:
			if signed {
				return tb.Sle(b, a)
			}
			return tb.Ule(b, a)
		}
	case *Str:
		b := y.(*Str)
		switch op {
		case token.ADD:
			return e.strConcat(a, b)
		case token.EQL:
			return e.strEq(a, b)
		case token.NEQ:
			return tb.Not(e.strEq(a, b))
		case token.LSS:
			return e.strLess(a, b)
		case token.GTR:
			return e.strLess(b, a)
		case token.LEQ:
			return tb.Not(e.strLess(b, a))
		case token.GEQ:
			return tb.Not(e.strLess(a, b))
		}
	default:
		switch op {
		case token.EQL:
			return e.valEq(x, y)
		case token.NEQ:
			return tb.Not(e.valEq(x, y))
		}
	}
	e.unsupported("binop %s on %T and %T", op, x, y)
	return nil
}

func (e *Exec) floatBinop(op token.Token, a, b *Term) Value {
	tb := e.tb
	// supported: comparison with a constant zero; equality of identical bit patterns is NOT float equality in general
	isZeroConst := func(t *Term) bool { return t.IsConst() && (t.Val<<1) == 0 && t.Val&mask(t.W) == t.Val && (t.W == 64 || (t.Val<<33) == 0) }
	_ = isZeroConst
	zc := func(t *Term) bool {
		if !t.IsConst() {
			return false
		}
		return t.Val&^(uint64(1)<<uint(t.W-1)) == 0
	}
	switch op {
	case token.EQL, token.NEQ:
		var r *Term
		switch {
		case a.IsConst() && b.IsConst():
			// IEEE: NaN != NaN, +0 == -0
			r = tb.Bool(floatConstEq(a, b))
		case zc(b):
			r = e.floatIsZero(a)
		case zc(a):
			r = e.floatIsZero(b)
		default:
			e.unsupported("float comparison of two symbolic values")
		}
		if op == token.NEQ {
			return tb.Not(r)
		}
		return r
	case token.LSS, token.LEQ, token.GTR, token.GEQ:
		// ordered comparison with constant zero, exact on the bit pattern
		x, flip := a, false
		switch {
		case zc(b):
		case zc(a):
			x, flip = b, true
		default:
			e.unsupported("ordered float comparison of two symbolic values")
		}
		if flip {
			op = map[token.Token]token.Token{token.LSS: token.GTR, token.GTR: token.LSS, token.LEQ: token.GEQ, token.GEQ: token.LEQ}[op]
		}
		if x.Op == OpF32to64 {
			x = x.Args[0]
		}
		w := x.W
		sign := tb.Eq(tb.Extract(x, w-1, w-1), tb.Const(1, 1))
		isZero := e.floatIsZero(x)
		var expMask, mantMask uint64
		if w == 32 {
			expMask, mantMask = 0x7f800000, 0x007fffff
		} else {
			expMask, mantMask = 0x7ff0000000000000, 0x000fffffffffffff
		}
		isNaN := tb.And(tb.Eq(tb.BvAnd(x, tb.Const(w, expMask)), tb.Const(w, expMask)), tb.Ne(tb.BvAnd(x, tb.Const(w, mantMask)), tb.Const(w, 0)))
		notNaN := tb.Not(isNaN)
		switch op {
		case token.GTR:
			return tb.And(notNaN, tb.And(tb.Not(sign), tb.Not(isZero)))
		case token.LSS:
			return tb.And(notNaN, tb.And(sign, tb.Not(isZero)))
		case token.GEQ:
			return tb.And(notNaN, tb.Or(tb.Not(sign), isZero))
		default:
			return tb.And(notNaN, tb.Or(sign, isZero))
		}
	}
	e.unsupported("float operation %s", op)
	return nil
}

func floatConstEq(a, b *Term) bool {
	if a.W == 32 {
		return float32frombits(uint32(a.Val)) == float32frombits(uint32(b.Val))
	}
	return float64frombits(a.Val) == float64frombits(b.Val)
}

func (e *Exec) shift(op token.Token, a, n *Term, signed, nSigned bool) Value {
	tb := e.tb
	if nSigned {
		e.check(tb.Sle(tb.Const(n.W, 0), n), "negshift", "negative shift amount")
	}
	w := a.W
	var cnt *Term
	var over *Term = tb.False
	if n.W > w {
		over = tb.Ule(tb.Const(n.W, uint64(w)), n)
		cnt = tb.Extract(n, w-1, 0)
	} else {
		cnt = tb.Zext(n, w)
	}
	var r, ov *Term
	switch {
	case op == token.SHL:
		r = tb.Shl(a, cnt)
		ov = tb.Const(w, 0)
	case signed:
		r = tb.Ashr(a, cnt)
		ov = tb.Ashr(a, tb.Const(w, uint64(w-1)))
	default:
		r = tb.Lshr(a, cnt)
		ov = tb.Const(w, 0)
	}
	return tb.Ite(over, ov, r)
}

// valEq compares pointers, interfaces, maps, closures, structs.
func (e *Exec) valEq(x, y Value) *Term {
	tb := e.tb
	switch a := x.(type) {
	case *Ptr:
		b, ok := y.(*Ptr)
		if !ok {
			e.unsupported("compare pointer with %T", y)
		}
		if a.Obj != b.Obj {
			return tb.False
		}
		if a.Obj == nil {
			return tb.True
		}
		if len(a.Path) != len(b.Path) {
			return tb.False
		}
		for i := range a.Path {
			if a.Path[i] != b.Path[i] {
				return tb.False
			}
		}
		if a.BIdx != nil && b.BIdx != nil {
			return tb.Eq(a.BIdx, b.BIdx)
		}
		return tb.Bool(a.BIdx == b.BIdx)
	case *Iface:
		b, ok := y.(*Iface)
		if !ok {
			e.unsupported("compare interface with %T", y)
		}
		if a.Typ == nil || b.Typ == nil {
			return tb.Bool(a.Typ == nil && b.Typ == nil)
		}
		if !types.Identical(a.Typ, b.Typ) {
			return tb.False
		}
		return e.valEqAny(a.Val, b.Val)
	case *Slice:
		b := y.(*Slice)
		if a.Obj == nil || b.Obj == nil {
			return tb.Bool(a.Obj == nil && b.Obj == nil)
		}
		e.unsupported("slice comparison")
	case *MapRef:
		b := y.(*MapRef)
		if a.Obj == nil || b.Obj == nil {
			return tb.Bool(a.Obj == nil && b.Obj == nil)
		}
		e.unsupported("map comparison")
	case *Closure:
		b := y.(*Closure)
		an := a.Fn == nil && a.Native == nil && a.Name == ""
		bn := b.Fn == nil && b.Native == nil && b.Name == ""
		if an || bn {
			return tb.Bool(an && bn)
		}
		e.unsupported("func comparison")
	case *Opaque:
		b, ok := y.(*Opaque)
		return tb.Bool(ok && a == b)
	case *StructVal:
		b := y.(*StructVal)
		r := tb.True
		for i := range a.Fields {
			r = tb.And(r, e.valEqAny(a.Fields[i], b.Fields[i]))
		}
		return r
	case *ArrayVal:
		b := y.(*ArrayVal)
		r := tb.True
		for i := range a.Elems {
			r = tb.And(r, e.valEqAny(a.Elems[i], b.Elems[i]))
		}
		return r
	}
	e.unsupported("equality on %T", x)
	return nil
}

func (e *Exec) valEqAny(x, y Value) *Term {
	switch a := x.(type) {
	case *Term:
		b, ok := y.(*Term)
		if !ok {
			return e.tb.False
		}
		return e.tb.Eq(a, b)
	case *Str:
		b, ok := y.(*Str)
		if !ok {
			return e.tb.False
		}
		return e.strEq(a, b)
	}
	return e.valEq(x, y)
}

// ---------- conversions ----------

func (e *Exec) convert(v Value, from, to types.Type) Value {
	tb := e.tb
	if p, ok := v.(*Poison); ok {
		return p
	}
	fu, tu := from.Underlying(), to.Underlying()
	switch x := v.(type) {
	case *Term:
		if isString(to) {
			// string(rune)
			if x.IsConst() && x.Val < 0x80 {
				return e.constStr(string(rune(x.Val)))
			}
			e.unsupported("string(integer) conversion")
		}
		if _, ok := tu.(*types.Basic); !ok {
			e.unsupported("convert %s to %s", from, to)
		}
		if tu.(*types.Basic).Kind() == types.UnsafePointer {
			e.unsupported("conversion of integer to unsafe.Pointer")
		}
		ff, tf := isFloat(from), isFloat(to)
		switch {
		case ff && tf:
			fw, tw := typeWidth(from), typeWidth(to)
			if fw == tw {
				return x
			}
			if fw == 32 {
				return tb.F32to64(x)
			}
			return tb.F64to32(x)
		case ff || tf:
			if x.IsConst() {
				return e.convertConstFloat(x, from, to)
			}
			e.unsupported("int/float conversion of symbolic value")
		}
		tw := typeWidth(to)
		if tw == x.W {
			return x
		}
		if tw < x.W {
			return tb.Extract(x, tw-1, 0)
		}
		if isSigned(from) {
			return tb.Sext(x, tw)
		}
		return tb.Zext(x, tw)
	case *Str:
		if ts, ok := tu.(*types.Slice); ok {
			if isByteType(ts.Elem()) {
				o := e.newObj(ObjBytes, ts.Elem())
				o.Bytes = &arrCopy{base: nil, dst: e.c64(0), n: x.Len, src: x.Arr, srcOff: x.Off}
				o.Cap = x.Len
				return &Slice{Obj: o, Off: e.c64(0), Len: x.Len, Cap: x.Len, MaxLen: x.MaxLen}
			}
			e.unsupported("string to %s", to)
		}
		return x
	case *Slice:
		if isString(to) {
			if x.Obj == nil {
				return e.constStr("")
			}
			if x.Obj.Kind != ObjBytes {
				e.unsupported("string of non-byte slice")
			}
			return &Str{Arr: x.Obj.Bytes, Off: x.Off, Len: x.Len, MaxLen: x.MaxLen}
		}
		if _, ok := tu.(*types.Slice); ok {
			return x
		}
		_ = fu
		e.unsupported("convert slice to %s", to)
	case *Ptr:
		// pointer <-> unsafe.Pointer keeps the referent; the only consumers are stubs
		// (MessageStateOf) that never look through it
		if _, ok := tu.(*types.Pointer); ok {
			return x
		}
		if b, ok := tu.(*types.Basic); ok && b.Kind() == types.UnsafePointer {
			return x
		}
		e.unsupported("pointer conversion to %s (unsafe)", to)
	}
	e.unsupported("convert %T from %s to %s", v, from, to)
	return nil
}

func (e *Exec) convertConstFloat(x *Term, from, to types.Type) Value {
	ff := isFloat(from)
	if ff {
		var f float64
		if x.W == 32 {
			f = float64(float32frombits(uint32(x.Val)))
		} else {
			f = float64frombits(x.Val)
		}
		tw := typeWidth(to)
		if isSigned(to) {
			return e.tb.Const(tw, uint64(int64(f)))
		}
		return e.tb.Const(tw, uint64(f))
	}
	var f float64
	if isSigned(from) {
		f = float64(x.SignedVal())
	} else {
		f = float64(x.Val)
	}
	if typeWidth(to) == 32 {
		return e.tb.Const(32, uint64(float32bits(float32(f))))
	}
	return e.tb.Const(64, float64bits(f))
}

// ---------- type assertions ----------

func (e *Exec) implements(dyn types.Type, val Value, iface *types.Interface) bool {
	if op, ok := val.(*Opaque); ok {
		return e.opaqueImplements(op, iface)
	}
	return types.Implements(dyn, iface)
}

func (e *Exec) typeAssert(x Value, in *ssa.TypeAssert) Value {
	if p, ok := x.(*Poison); ok {
		e.unsupported("use of value package init could not compute: %s", p.Why)
	}
	ifc, ok := x.(*Iface)
	if !ok {
		e.unsupported("type assert on %T", x)
	}
	var okv bool
	var res Value
	if it, isI := in.AssertedType.Underlying().(*types.Interface); isI {
		if ifc.Typ != nil && e.implements(ifc.Typ, ifc.Val, it) {
			okv = true
			res = ifc
		} else {
			res = &Iface{}
		}
	} else {
		if ifc.Typ != nil && types.Identical(ifc.Typ, in.AssertedType) {
			okv = true
			res = ifc.Val
		} else {
			res = e.zero(in.AssertedType)
		}
	}
	if in.CommaOk {
		return Tuple{res, e.tb.Bool(okv)}
	}
	if !okv {
		d := "nil"
		if ifc.Typ != nil {
			d = ifc.Typ.String()
			if op, ok := ifc.Val.(*Opaque); ok {
				d = "opaque " + op.Class
			}
		}
		panic(&goPanic{kind: "typeassert", detail: fmt.Sprintf("interface conversion: %s is not %s at %s", d, in.AssertedType, e.pos2(in.Pos()))})
	}
	return res
}

// ---------- indexing / slicing ----------

func (e *Exec) boundsCheck(i, n *Term, pos string) {
	// 0 <= i < n  (as signed 64-bit ints)
	c := e.tb.And(e.tb.Sle(e.c64(0), i), e.tb.Slt(i, n))
	e.check(c, "index", "index out of range at "+pos)
}

func (e *Exec) indexAddr(x Value, idx *Term, idxT types.Type, pos string) Value {
	i := e.toInt(idx, idxT)
	switch a := x.(type) {
	case *Slice:
		e.boundsCheck(i, a.Len, pos)
		if a.Obj.Kind == ObjBytes {
			return &Ptr{Obj: a.Obj, BIdx: e.tb.Add(a.Off, i)}
		}
		k := e.concretize(e.tb.Add(a.Off, i), "slice element index")
		e.realise(a.Obj, int(k)+1)
		return &Ptr{Obj: a.Obj, Path: []int{int(k)}}
	case *Ptr:
		// pointer to array
		if a.Obj == nil {
			panic(&goPanic{kind: "nil", detail: "index of nil array pointer at " + pos})
		}
		switch a.Obj.Kind {
		case ObjBytes:
			e.boundsCheck(i, a.Obj.Cap, pos)
			return &Ptr{Obj: a.Obj, BIdx: i}
		case ObjCells:
			e.boundsCheck(i, a.Obj.Cap, pos)
			k := e.concretize(i, "array index")
			return &Ptr{Obj: a.Obj, Path: []int{int(k)}}
		case ObjCell:
			// array nested in a struct / cell
			v := e.walk(a.Obj.Val, a.Path)
			av, ok := v.(*ArrayVal)
			if !ok {
				e.unsupported("IndexAddr into %T", v)
			}
			e.boundsCheck(i, e.c64(int64(len(av.Elems))), pos)
			k := e.concretize(i, "array index")
			return &Ptr{Obj: a.Obj, Path: appendPath(a.Path, int(k))}
		}
	}
	e.unsupported("IndexAddr on %T", x)
	return nil
}

func (e *Exec) realise(o *Obj, n int) {
	for len(o.Cells) < n {
		o.Cells = append(o.Cells, e.zero(o.Typ))
	}
}

func (e *Exec) index(x Value, idx *Term, idxT types.Type, pos string) Value {
	i := e.toInt(idx, idxT)
	switch a := x.(type) {
	case *Str:
		e.boundsCheck(i, a.Len, pos)
		return e.strAt(a, i)
	case *ArrayVal:
		e.boundsCheck(i, e.c64(int64(len(a.Elems))), pos)
		if i.IsConst() {
			return copyVal(a.Elems[i.Val])
		}
		// symbolic index into a value array of scalars: ite chain
		if len(a.Elems) > 0 {
			if _, ok := a.Elems[0].(*Term); ok {
				r := a.Elems[len(a.Elems)-1].(*Term)
				for k := len(a.Elems) - 2; k >= 0; k-- {
					r = e.tb.Ite(e.tb.Eq(i, e.c64(int64(k))), a.Elems[k].(*Term), r)
				}
				return r
			}
		}
		k := e.concretize(i, "array value index")
		return copyVal(a.Elems[k])
	}
	e.unsupported("Index on %T", x)
	return nil
}

func (e *Exec) sliceOp(fr *frame, in *ssa.Slice) Value {
	tb := e.tb
	x := e.eval(fr, in.X)
	var lo, hi, mx *Term
	if in.Low != nil {
		lo = e.toInt(e.eval(fr, in.Low), in.Low.Type())
	} else {
		lo = e.c64(0)
	}
	if in.High != nil {
		hi = e.toInt(e.eval(fr, in.High), in.High.Type())
	}
	if in.Max != nil {
		mx = e.toInt(e.eval(fr, in.Max), in.Max.Type())
	}
	pos := e.pos2(in.Pos())
	switch a := x.(type) {
	case *Str:
		if hi == nil {
			hi = a.Len
		}
		c := tb.And(tb.And(tb.Sle(e.c64(0), lo), tb.Sle(lo, hi)), tb.Sle(hi, a.Len))
		e.check(c, "slice", "slice bounds out of range at "+pos)
		ml := a.MaxLen
		if d := tb.Sub(hi, lo); d.IsConst() {
			ml = int(d.Val)
		}
		return &Str{Arr: a.Arr, Off: tb.Add(a.Off, lo), Len: tb.Sub(hi, lo), MaxLen: ml}
	case *Slice:
		if hi == nil {
			hi = a.Len
		}
		capv := a.Cap
		if mx == nil {
			mx = capv
		}
		c := tb.And(tb.And(tb.Sle(e.c64(0), lo), tb.Sle(lo, hi)), tb.And(tb.Sle(hi, mx), tb.Sle(mx, capv)))
		e.check(c, "slice", "slice bounds out of range at "+pos)
		if a.Obj == nil {
			return &Slice{Off: e.c64(0), Len: e.c64(0), Cap: e.c64(0)}
		}
		ml := -1
		if d := tb.Sub(hi, lo); d.IsConst() {
			ml = int(d.Val)
		} else if a.MaxLen >= 0 {
			ml = a.MaxLen
		}
		return &Slice{Obj: a.Obj, Off: tb.Add(a.Off, lo), Len: tb.Sub(hi, lo), Cap: tb.Sub(mx, lo), MaxLen: ml}
	case *Ptr:
		if a.Obj == nil {
			panic(&goPanic{kind: "nil", detail: "slice of nil array pointer at " + pos})
		}
		if a.Obj.Kind != ObjBytes && a.Obj.Kind != ObjCells {
			e.unsupported("slicing an array that is not separately allocated")
		}
		capv := a.Obj.Cap
		if hi == nil {
			hi = capv
		}
		if mx == nil {
			mx = capv
		}
		c := tb.And(tb.And(tb.Sle(e.c64(0), lo), tb.Sle(lo, hi)), tb.And(tb.Sle(hi, mx), tb.Sle(mx, capv)))
		e.check(c, "slice", "slice bounds out of range at "+pos)
		ml := -1
		if d := tb.Sub(hi, lo); d.IsConst() {
			ml = int(d.Val)
		}
		return &Slice{Obj: a.Obj, Off: lo, Len: tb.Sub(hi, lo), Cap: tb.Sub(mx, lo), MaxLen: ml}
	}
	e.unsupported("Slice on %T", x)
	return nil
}

func (e *Exec) makeSlice(t types.Type, ln, cp *Term, pos string) Value {
	tb := e.tb
	c := tb.And(tb.Sle(e.c64(0), ln), tb.Sle(ln, cp))
	e.check(c, "makeslice", "makeslice: len/cap out of range at "+pos)
	elem := t.Underlying().(*types.Slice).Elem()
	var o *Obj
	if isByteType(elem) {
		o = e.newObj(ObjBytes, elem)
		o.Cap = cp
		e.allocs = append(e.allocs, allocRec{pos, cp})
	} else {
		o = e.newObj(ObjCells, elem)
		o.Cap = cp
		n := e.concretize(ln, "make length of non-byte slice")
		e.realise(o, int(n))
		sz := int64(8)
		if w := typeWidth(elem); w > 0 {
			sz = int64(w / 8)
		} else if w == 0 {
			sz = 1
		} else if isString(elem) {
			sz = 16
		}
		e.allocs = append(e.allocs, allocRec{pos, tb.Mul(cp, e.c64(sz))})
	}
	ml := -1
	if ln.IsConst() {
		ml = int(ln.Val)
	}
	return &Slice{Obj: o, Off: e.c64(0), Len: ln, Cap: cp, MaxLen: ml}
}

// ---------- maps ----------

func (e *Exec) keyEq(a, b Value) *Term { return e.valEqAny(a, b) }

func (e *Exec) mapUpdate(m Value, k, v Value, pos string) {
	mr := m.(*MapRef)
	if mr.Obj == nil {
		panic(&goPanic{kind: "map-nil", detail: "assignment to entry in nil map at " + pos})
	}
	e.recordWrite(mr.Obj, pos)
	for _, en := range mr.Obj.Ents {
		if e.branch(e.keyEq(en.Key, k), false) {
			en.Val = copyVal(v)
			return
		}
	}
	mr.Obj.Ents = append(mr.Obj.Ents, &MapEntry{Key: copyVal(k), Val: copyVal(v)})
}

func (e *Exec) mapLookup(mr *MapRef, k Value, resT types.Type, commaOk bool) Value {
	var elemT types.Type
	if commaOk {
		elemT = resT.(*types.Tuple).At(0).Type()
	} else {
		elemT = resT
	}
	if mr.Obj != nil {
		for _, en := range mr.Obj.Ents {
			if e.branch(e.keyEq(en.Key, k), false) {
				if commaOk {
					return Tuple{copyVal(en.Val), e.tb.True}
				}
				return copyVal(en.Val)
			}
		}
	}
	if commaOk {
		return Tuple{e.zero(elemT), e.tb.False}
	}
	return e.zero(elemT)
}

func (e *Exec) mapDelete(mr *MapRef, k Value) {
	if mr.Obj == nil {
		return
	}
	e.recordWrite(mr.Obj, "delete")
	for i, en := range mr.Obj.Ents {
		if e.branch(e.keyEq(en.Key, k), false) {
			mr.Obj.Ents = append(append([]*MapEntry{}, mr.Obj.Ents[:i]...), mr.Obj.Ents[i+1:]...)
			return
		}
	}
}

type rangeIter struct {
	ents []*MapEntry // remaining (snapshot)
	str  *Str
	pos  int
}

func (e *Exec) rangeStart(x Value) Value {
	switch a := x.(type) {
	case *MapRef:
		it := &rangeIter{}
		if a.Obj != nil {
			it.ents = append(it.ents, a.Obj.Ents...)
		}
		return it
	case *Str:
		if _, ok := e.concreteStr(a); !ok {
			e.unsupported("range over symbolic string")
		}
		return &rangeIter{str: a}
	}
	e.unsupported("range over %T", x)
	return nil
}

func (e *Exec) rangeNext(itv Value, in *ssa.Next) Value {
	it := itv.(*rangeIter)
	tt := in.Type().(*types.Tuple)
	if in.IsString {
		s, _ := e.concreteStr(it.str)
		if it.pos >= len(s) {
			return Tuple{e.tb.False, e.c64(0), e.tb.Const(32, 0)}
		}
		for i, r := range s[it.pos:] {
			_ = i
			p := it.pos
			it.pos += len(string(r))
			return Tuple{e.tb.True, e.c64(int64(p)), e.tb.Const(32, uint64(r))}
		}
	}
	if len(it.ents) == 0 {
		return Tuple{e.tb.False, e.zeroOrNil(tt.At(1).Type()), e.zeroOrNil(tt.At(2).Type())}
	}
	k := 0
	if e.mapAll {
		k = e.choice(len(it.ents))
	}
	en := it.ents[k]
	it.ents = append(append([]*MapEntry{}, it.ents[:k]...), it.ents[k+1:]...)
	return Tuple{e.tb.True, copyVal(en.Key), copyVal(en.Val)}
}

func (e *Exec) zeroOrNil(t types.Type) Value {
	if b, ok := t.(*types.Basic); ok && b.Kind() == types.Invalid {
		return nil
	}
	return e.zero(t)
}

// ---------- strings ----------

func (e *Exec) strConcat(a, b *Str) Value {
	if as, ok := e.concreteStr(a); ok {
		if bs, ok := e.concreteStr(b); ok {
			return e.constStr(as + bs)
		}
	}
	arr := &arrCopy{base: &arrCopy{base: nil, dst: e.c64(0), n: a.Len, src: a.Arr, srcOff: a.Off}, dst: a.Len, n: b.Len, src: b.Arr, srcOff: b.Off}
	ml := -1
	if a.MaxLen >= 0 && b.MaxLen >= 0 {
		ml = a.MaxLen + b.MaxLen
	}
	return &Str{Arr: arr, Off: e.c64(0), Len: e.tb.Add(a.Len, b.Len), MaxLen: ml}
}

func (e *Exec) strBound(a, b *Str) int {
	n := -1
	if a.MaxLen >= 0 {
		n = a.MaxLen
	}
	if b.MaxLen >= 0 && (n < 0 || b.MaxLen < n) {
		n = b.MaxLen
	}
	if n < 0 || n > 64 {
		// the static bound is useless (e.g. a key sliced out of a large buffer): ask whether
		// the path condition bounds one of the lengths
		for _, s := range []*Str{a, b} {
			if k := e.provenLenBound(s.Len); k >= 0 && (n < 0 || k < n) {
				n = k
			}
		}
	}
	return n
}

// provenLenBound returns a small k with pc => len <= k, or -1. Facts only grow along a
// path, so results are cached per path.
func (e *Exec) provenLenBound(l *Term) int {
	if l.IsConst() {
		return int(l.Val)
	}
	if k, ok := e.lenBounds[l]; ok {
		return k
	}
	res := -1
	if r := e.rangeOf(l); r.bounded() && r.hi >= 0 && r.hi <= 64 {
		res = int(r.hi)
	} else if !e.initMode {
		for _, c := range []int64{4, 16, 64} {
			e.solver.Push()
			e.solver.Assert(e.tb.Slt(e.c64(c), l))
			r := e.solver.Check()
			e.solver.Pop()
			if r == Unsat {
				res = int(c)
				break
			}
		}
		e.model = nil
	}
	e.lenBounds[l] = res
	return res
}

func (e *Exec) strEq(a, b *Str) *Term {
	tb := e.tb
	if as, ok := e.concreteStr(a); ok {
		if bs, ok := e.concreteStr(b); ok {
			return tb.Bool(as == bs)
		}
	}
	n := e.strBound(a, b)
	if n < 0 {
		e.unsupported("equality of two strings of unbounded symbolic length")
	}
	if n > 64 {
		e.unsupported("string equality with bound %d", n)
	}
	r := tb.Eq(a.Len, b.Len)
	for i := 0; i < n; i++ {
		ci := e.c64(int64(i))
		r = tb.And(r, tb.Implies(tb.Slt(ci, a.Len), tb.Eq(e.strAt(a, ci), e.strAt(b, ci))))
	}
	return r
}

// strLess is bytewise lexicographic a < b.
func (e *Exec) strLess(a, b *Str) *Term {
	tb := e.tb
	if as, ok := e.concreteStr(a); ok {
		if bs, ok := e.concreteStr(b); ok {
			return tb.Bool(as < bs)
		}
	}
	n := -1
	if a.MaxLen >= 0 {
		n = a.MaxLen
	}
	if b.MaxLen >= 0 && b.MaxLen > n {
		n = b.MaxLen
	}
	if a.MaxLen < 0 || b.MaxLen < 0 {
		e.unsupported("ordering of strings of unbounded symbolic length")
	}
	if n > 16 {
		e.unsupported("string ordering with bound %d", n)
	}
	// from the end: less_i = if i>=lenA: i<lenB ; elif i>=lenB: false ; elif a[i]<b[i]: true ; elif a[i]>b[i]: false ; else less_{i+1}
	res := tb.Slt(a.Len, b.Len) // position n: both exhausted or by length
	for i := n - 1; i >= 0; i-- {
		ci := e.c64(int64(i))
		ai, bi := e.strAt(a, ci), e.strAt(b, ci)
		inA, inB := tb.Slt(ci, a.Len), tb.Slt(ci, b.Len)
		res = tb.Ite(tb.Not(inA), inB,
			tb.Ite(tb.Not(inB), tb.False,
				tb.Ite(tb.Ult(ai, bi), tb.True,
					tb.Ite(tb.Ult(bi, ai), tb.False, res))))
	}
	return res
}
