// Package sym is a forking symbolic executor for go/ssa that lowers path
// conditions and assertions to SMT-LIB2 (bit-vectors + uninterpreted functions).
package sym

import (
	"fmt"
	"math"
	"math/bits"
	"sort"
	"strings"
)

type Op uint8

const (
	OpConst Op = iota
	OpVar
	OpAdd // only produced through linear normal form
	OpSub
	OpNeg
	OpMul
	OpAnd
	OpOr
	OpXor
	OpNot // bitwise
	OpShl
	OpLshr
	OpAshr
	OpUdiv
	OpUrem
	OpSdiv
	OpSrem
	OpConcat
	OpExtract
	OpZext
	OpSext
	OpIte
	OpEq
	OpUlt
	OpUle
	OpSlt
	OpSle
	OpBAnd // boolean
	OpBOr
	OpBNot
	OpSelect // UF application name(idx)
	OpF32to64 // uninterpreted float32->float64 widening on bit patterns
	OpF64to32
)

var opNames = map[Op]string{
	OpAdd: "bvadd", OpSub: "bvsub", OpNeg: "bvneg", OpMul: "bvmul", OpAnd: "bvand", OpOr: "bvor",
	OpXor: "bvxor", OpNot: "bvnot", OpShl: "bvshl", OpLshr: "bvlshr", OpAshr: "bvashr",
	OpUdiv: "bvudiv", OpUrem: "bvurem", OpSdiv: "bvsdiv", OpSrem: "bvsrem", OpConcat: "concat",
	OpIte: "ite", OpEq: "=", OpUlt: "bvult", OpUle: "bvule", OpSlt: "bvslt", OpSle: "bvsle",
	OpBAnd: "and", OpBOr: "or", OpBNot: "not", OpF32to64: "f32to64", OpF64to32: "f64to32",
}

// Term is a hash-consed SMT term. W == 0 means Bool.
type Term struct {
	ID   int
	Op   Op
	W    int
	Args []*Term
	Val  uint64 // OpConst (bool: 0/1)
	Name string // OpVar, OpSelect (UF name)
	Hi   int    // OpExtract hi; OpZext/OpSext: number of added bits
	Lo   int
	lin  *linForm
}

type linTerm struct {
	t *Term
	c uint64
}
type linForm struct {
	ts []linTerm // sorted by t.ID
	k  uint64
}

type termKey struct {
	op         Op
	w          int
	a0, a1, a2 int
	val        uint64
	name       string
	hi, lo     int
}

// Table owns all terms of one executor.
type Table struct {
	terms []*Term
	index map[termKey]*Term
	True  *Term
	False *Term
	// declared symbols in order of creation
	Vars []*Term
	UFs  []string
	ufs  map[string]bool
	UsesFloatConv bool
	Selects map[string][]*Term
	strict  bool
}

func NewTable() *Table {
	t := &Table{index: map[termKey]*Term{}, ufs: map[string]bool{}}
	t.True = t.mk(&Term{Op: OpConst, W: 0, Val: 1})
	t.False = t.mk(&Term{Op: OpConst, W: 0, Val: 0})
	return t
}

func (tb *Table) NumTerms() int { return len(tb.terms) }

func (tb *Table) mk(t *Term) *Term {
	k := termKey{op: t.Op, w: t.W, val: t.Val, name: t.Name, hi: t.Hi, lo: t.Lo, a0: -1, a1: -1, a2: -1}
	if len(t.Args) > 0 {
		k.a0 = t.Args[0].ID
	}
	if len(t.Args) > 1 {
		k.a1 = t.Args[1].ID
	}
	if len(t.Args) > 2 {
		k.a2 = t.Args[2].ID
	}
	if len(t.Args) > 3 {
		panic("term arity")
	}
	if e, ok := tb.index[k]; ok {
		return e
	}
	t.ID = len(tb.terms)
	tb.terms = append(tb.terms, t)
	tb.index[k] = t
	return t
}

func mask(w int) uint64 {
	if w >= 64 {
		return ^uint64(0)
	}
	return (uint64(1) << uint(w)) - 1
}

func (t *Term) IsConst() bool { return t.Op == OpConst }
func (t *Term) IsTrue() bool  { return t.Op == OpConst && t.W == 0 && t.Val == 1 }
func (t *Term) IsFalse() bool { return t.Op == OpConst && t.W == 0 && t.Val == 0 }

// SignedVal returns the constant as sign-extended int64.
func (t *Term) SignedVal() int64 {
	if t.W >= 64 {
		return int64(t.Val)
	}
	sh := uint(64 - t.W)
	return int64(t.Val<<sh) >> sh
}

func (tb *Table) Const(w int, v uint64) *Term {
	if w == 0 {
		if v != 0 {
			return tb.True
		}
		return tb.False
	}
	if w > 64 {
		panic("const wider than 64")
	}
	return tb.mk(&Term{Op: OpConst, W: w, Val: v & mask(w)})
}
func (tb *Table) Bool(b bool) *Term {
	if b {
		return tb.True
	}
	return tb.False
}

func (tb *Table) Var(name string, w int) *Term {
	k := termKey{op: OpVar, w: w, name: name, a0: -1, a1: -1, a2: -1}
	if e, ok := tb.index[k]; ok {
		return e
	}
	t := tb.mk(&Term{Op: OpVar, W: w, Name: name})
	tb.Vars = append(tb.Vars, t)
	return t
}

// Select applies the uninterpreted function name: BV64 -> BV8.
func (tb *Table) Select(name string, idx *Term) *Term {
	if !tb.ufs[name] {
		tb.ufs[name] = true
		tb.UFs = append(tb.UFs, name)
	}
	n0 := len(tb.terms)
	t := tb.mk(&Term{Op: OpSelect, W: 8, Name: name, Args: []*Term{idx}})
	if len(tb.terms) > n0 {
		if tb.Selects == nil {
			tb.Selects = map[string][]*Term{}
		}
		tb.Selects[name] = append(tb.Selects[name], t)
	}
	return t
}

// ---------- linear normal form ----------

func (tb *Table) linOf(t *Term) *linForm {
	if t.lin != nil {
		return t.lin
	}
	if t.Op == OpConst {
		return &linForm{k: t.Val}
	}
	return &linForm{ts: []linTerm{{t, 1}}}
}

func linCombine(a *linForm, ca uint64, b *linForm, cb uint64, w int) *linForm {
	m := mask(w)
	r := &linForm{k: (a.k*ca + b.k*cb) & m}
	i, j := 0, 0
	for i < len(a.ts) || j < len(b.ts) {
		switch {
		case j >= len(b.ts) || (i < len(a.ts) && a.ts[i].t.ID < b.ts[j].t.ID):
			c := (a.ts[i].c * ca) & m
			if c != 0 {
				r.ts = append(r.ts, linTerm{a.ts[i].t, c})
			}
			i++
		case i >= len(a.ts) || b.ts[j].t.ID < a.ts[i].t.ID:
			c := (b.ts[j].c * cb) & m
			if c != 0 {
				r.ts = append(r.ts, linTerm{b.ts[j].t, c})
			}
			j++
		default:
			c := (a.ts[i].c*ca + b.ts[j].c*cb) & m
			if c != 0 {
				r.ts = append(r.ts, linTerm{a.ts[i].t, c})
			}
			i++
			j++
		}
	}
	return r
}

// remRewrite applies x - c*(x sdiv c) = x srem c (and the unsigned analogue), an
// identity of SMT-LIB bit-vector division for constant c != 0, so that code computing a
// remainder by multiply-and-subtract shares one term with code using %.
func (tb *Table) remRewrite(f *linForm, w int) *linForm {
	m := mask(w)
	for _, lt := range f.ts {
		d := lt.t
		if (d.Op != OpSdiv && d.Op != OpUdiv) || !d.Args[1].IsConst() || d.Args[1].Val == 0 {
			continue
		}
		c := d.Args[1].Val
		// need coefficient of d == -c*k and coefficient of x == k for the same k (take k from x)
		xl := tb.linOf(d.Args[0])
		if len(xl.ts) != 1 || xl.ts[0].c != 1 || xl.k != 0 {
			continue
		}
		x := xl.ts[0].t
		var k uint64
		found := false
		for _, o := range f.ts {
			if o.t == x {
				k = o.c
				found = true
			}
		}
		if !found || (lt.c+c*k)&m != 0 {
			continue
		}
		var r *Term
		if d.Op == OpSdiv {
			r = tb.Srem(x, d.Args[1])
		} else {
			r = tb.Urem(x, d.Args[1])
		}
		// f - k*x + c*k*d + k*r
		g := linCombine(f, 1, &linForm{ts: []linTerm{{x, 1}}}, (-k)&m, w)
		g = linCombine(g, 1, &linForm{ts: []linTerm{{d, 1}}}, (c*k)&m, w)
		g = linCombine(g, 1, tb.linOf(r), k, w)
		return tb.remRewrite(g, w)
	}
	return f
}

func (tb *Table) fromLin(f *linForm, w int) *Term {
	m := mask(w)
	if len(f.ts) >= 2 {
		f = tb.remRewrite(f, w)
	}
	if len(f.ts) == 0 {
		return tb.Const(w, f.k)
	}
	if len(f.ts) == 1 && f.ts[0].c == 1 && f.k == 0 {
		return f.ts[0].t
	}
	var acc *Term
	// positive coefficients first so that the chain starts with a plain term
	order := make([]linTerm, len(f.ts))
	copy(order, f.ts)
	sort.SliceStable(order, func(i, j int) bool {
		pi := order[i].c == 1
		pj := order[j].c == 1
		if pi != pj {
			return pi
		}
		return false
	})
	for _, lt := range order {
		var piece *Term
		neg := false
		switch {
		case lt.c == 1:
			piece = lt.t
		case lt.c == m:
			piece = lt.t
			neg = true
		default:
			piece = tb.mk(&Term{Op: OpMul, W: w, Args: []*Term{tb.Const(w, lt.c), lt.t}})
		}
		if acc == nil {
			if neg {
				acc = tb.mk(&Term{Op: OpNeg, W: w, Args: []*Term{piece}})
			} else {
				acc = piece
			}
		} else if neg {
			acc = tb.mk(&Term{Op: OpSub, W: w, Args: []*Term{acc, piece}})
		} else {
			acc = tb.mk(&Term{Op: OpAdd, W: w, Args: []*Term{acc, piece}})
		}
	}
	if f.k != 0 {
		// prefer subtraction of small constants for readability
		if f.k > m/2 {
			acc = tb.mk(&Term{Op: OpSub, W: w, Args: []*Term{acc, tb.Const(w, (-f.k)&m)}})
		} else {
			acc = tb.mk(&Term{Op: OpAdd, W: w, Args: []*Term{acc, tb.Const(w, f.k)}})
		}
	}
	if acc.lin == nil {
		acc.lin = f
	}
	return acc
}

func (tb *Table) Add(a, b *Term) *Term {
	tb.sameW(a, b)
	return tb.fromLin(linCombine(tb.linOf(a), 1, tb.linOf(b), 1, a.W), a.W)
}
func (tb *Table) Sub(a, b *Term) *Term {
	tb.sameW(a, b)
	return tb.fromLin(linCombine(tb.linOf(a), 1, tb.linOf(b), mask(a.W), a.W), a.W)
}
func (tb *Table) Neg(a *Term) *Term {
	return tb.fromLin(linCombine(tb.linOf(a), mask(a.W), &linForm{}, 0, a.W), a.W)
}
func (tb *Table) AddC(a *Term, c int64) *Term { return tb.Add(a, tb.Const(a.W, uint64(c))) }

func (tb *Table) Mul(a, b *Term) *Term {
	tb.sameW(a, b)
	if a.IsConst() && b.IsConst() {
		return tb.Const(a.W, a.Val*b.Val)
	}
	if b.IsConst() {
		a, b = b, a
	}
	if a.IsConst() {
		return tb.fromLin(linCombine(tb.linOf(b), a.Val, &linForm{}, 0, a.W), a.W)
	}
	if a.ID > b.ID {
		a, b = b, a
	}
	return tb.mk(&Term{Op: OpMul, W: a.W, Args: []*Term{a, b}})
}

func (tb *Table) sameW(a, b *Term) {
	if a.W != b.W {
		panic(fmt.Sprintf("width mismatch %d vs %d: %s / %s", a.W, b.W, tb.Show(a), tb.Show(b)))
	}
}

// ---------- bitwise ----------

func (tb *Table) BvAnd(a, b *Term) *Term {
	tb.sameW(a, b)
	if a.IsConst() && b.IsConst() {
		return tb.Const(a.W, a.Val&b.Val)
	}
	if b.IsConst() {
		a, b = b, a
	}
	if a.IsConst() {
		if a.Val == 0 {
			return a
		}
		if a.Val == mask(a.W) {
			return b
		}
	}
	if a == b {
		return a
	}
	if a.ID > b.ID && !a.IsConst() {
		a, b = b, a
	}
	return tb.mk(&Term{Op: OpAnd, W: a.W, Args: []*Term{a, b}})
}
func (tb *Table) BvOr(a, b *Term) *Term {
	tb.sameW(a, b)
	if a.IsConst() && b.IsConst() {
		return tb.Const(a.W, a.Val|b.Val)
	}
	if b.IsConst() {
		a, b = b, a
	}
	if a.IsConst() {
		if a.Val == 0 {
			return b
		}
		if a.Val == mask(a.W) {
			return a
		}
	}
	if a == b {
		return a
	}
	if a.ID > b.ID && !a.IsConst() {
		a, b = b, a
	}
	return tb.mk(&Term{Op: OpOr, W: a.W, Args: []*Term{a, b}})
}
func (tb *Table) BvXor(a, b *Term) *Term {
	tb.sameW(a, b)
	if a.IsConst() && b.IsConst() {
		return tb.Const(a.W, a.Val^b.Val)
	}
	if b.IsConst() {
		a, b = b, a
	}
	if a.IsConst() && a.Val == 0 {
		return b
	}
	if a == b {
		return tb.Const(a.W, 0)
	}
	if a.ID > b.ID && !a.IsConst() {
		a, b = b, a
	}
	return tb.mk(&Term{Op: OpXor, W: a.W, Args: []*Term{a, b}})
}
func (tb *Table) BvNot(a *Term) *Term {
	if a.IsConst() {
		return tb.Const(a.W, ^a.Val)
	}
	if a.Op == OpNot {
		return a.Args[0]
	}
	return tb.mk(&Term{Op: OpNot, W: a.W, Args: []*Term{a}})
}

// Shl etc. take the shift amount already converted to the operand width.
func (tb *Table) Shl(a, n *Term) *Term {
	tb.sameW(a, n)
	if n.IsConst() {
		if n.Val == 0 {
			return a
		}
		if n.Val >= uint64(a.W) {
			return tb.Const(a.W, 0)
		}
		if a.IsConst() {
			return tb.Const(a.W, a.Val<<n.Val)
		}
	}
	if a.IsConst() && a.Val == 0 {
		return a
	}
	return tb.mk(&Term{Op: OpShl, W: a.W, Args: []*Term{a, n}})
}
func (tb *Table) Lshr(a, n *Term) *Term {
	tb.sameW(a, n)
	if n.IsConst() {
		if n.Val == 0 {
			return a
		}
		if n.Val >= uint64(a.W) {
			return tb.Const(a.W, 0)
		}
		if a.IsConst() {
			return tb.Const(a.W, a.Val>>n.Val)
		}
	}
	if a.IsConst() && a.Val == 0 {
		return a
	}
	return tb.mk(&Term{Op: OpLshr, W: a.W, Args: []*Term{a, n}})
}
func (tb *Table) Ashr(a, n *Term) *Term {
	tb.sameW(a, n)
	if n.IsConst() {
		if n.Val == 0 {
			return a
		}
		if a.IsConst() {
			s := n.Val
			if s >= uint64(a.W) {
				s = uint64(a.W - 1)
			}
			return tb.Const(a.W, uint64(a.SignedVal()>>s))
		}
	}
	return tb.mk(&Term{Op: OpAshr, W: a.W, Args: []*Term{a, n}})
}

func (tb *Table) Udiv(a, b *Term) *Term {
	tb.sameW(a, b)
	if a.IsConst() && b.IsConst() && b.Val != 0 {
		return tb.Const(a.W, a.Val/b.Val)
	}
	return tb.mk(&Term{Op: OpUdiv, W: a.W, Args: []*Term{a, b}})
}
func (tb *Table) Urem(a, b *Term) *Term {
	tb.sameW(a, b)
	if a.IsConst() && b.IsConst() && b.Val != 0 {
		return tb.Const(a.W, a.Val%b.Val)
	}
	return tb.mk(&Term{Op: OpUrem, W: a.W, Args: []*Term{a, b}})
}
func (tb *Table) Sdiv(a, b *Term) *Term {
	tb.sameW(a, b)
	if a.IsConst() && b.IsConst() && b.Val != 0 {
		x, y := a.SignedVal(), b.SignedVal()
		if !(y == -1) {
			return tb.Const(a.W, uint64(x/y))
		}
		return tb.Const(a.W, uint64(-x))
	}
	return tb.mk(&Term{Op: OpSdiv, W: a.W, Args: []*Term{a, b}})
}
func (tb *Table) Srem(a, b *Term) *Term {
	tb.sameW(a, b)
	if a.IsConst() && b.IsConst() && b.Val != 0 {
		x, y := a.SignedVal(), b.SignedVal()
		if y == -1 {
			return tb.Const(a.W, 0)
		}
		return tb.Const(a.W, uint64(x%y))
	}
	return tb.mk(&Term{Op: OpSrem, W: a.W, Args: []*Term{a, b}})
}

func (tb *Table) Extract(a *Term, hi, lo int) *Term {
	if lo == 0 && hi == a.W-1 {
		return a
	}
	w := hi - lo + 1
	if a.IsConst() {
		return tb.Const(w, a.Val>>uint(lo))
	}
	if (a.Op == OpZext || a.Op == OpSext) && hi < a.Args[0].W {
		return tb.Extract(a.Args[0], hi, lo)
	}
	if a.Op == OpZext && lo >= a.Args[0].W {
		return tb.Const(w, 0)
	}
	if a.Op == OpExtract {
		return tb.Extract(a.Args[0], a.Lo+hi, a.Lo+lo)
	}
	if a.Op == OpConcat {
		lw := a.Args[1].W
		if hi < lw {
			return tb.Extract(a.Args[1], hi, lo)
		}
		if lo >= lw {
			return tb.Extract(a.Args[0], hi-lw, lo-lw)
		}
	}
	return tb.mk(&Term{Op: OpExtract, W: w, Args: []*Term{a}, Hi: hi, Lo: lo})
}
func (tb *Table) Zext(a *Term, w int) *Term {
	if w == a.W {
		return a
	}
	if w < a.W {
		return tb.Extract(a, w-1, 0)
	}
	if a.IsConst() && w <= 64 {
		return tb.Const(w, a.Val)
	}
	if a.Op == OpZext {
		return tb.Zext(a.Args[0], w)
	}
	return tb.mk(&Term{Op: OpZext, W: w, Args: []*Term{a}, Hi: w - a.W})
}
func (tb *Table) Sext(a *Term, w int) *Term {
	if w == a.W {
		return a
	}
	if w < a.W {
		return tb.Extract(a, w-1, 0)
	}
	if a.IsConst() && w <= 64 {
		return tb.Const(w, uint64(a.SignedVal()))
	}
	if a.Op == OpSext {
		return tb.Sext(a.Args[0], w)
	}
	if a.Op == OpZext {
		return tb.Zext(a.Args[0], w)
	}
	return tb.mk(&Term{Op: OpSext, W: w, Args: []*Term{a}, Hi: w - a.W})
}
func (tb *Table) Concat(hi, lo *Term) *Term {
	if hi.IsConst() && lo.IsConst() && hi.W+lo.W <= 64 {
		return tb.Const(hi.W+lo.W, hi.Val<<uint(lo.W)|lo.Val)
	}
	return tb.mk(&Term{Op: OpConcat, W: hi.W + lo.W, Args: []*Term{hi, lo}})
}

// F32to64 / F64to32 model float width conversion on IEEE bit patterns as a pair of
// uninterpreted functions with the round-trip rewrite f64to32(f32to64(x)) = x.
func (tb *Table) F32to64(a *Term) *Term {
	if a.IsConst() {
		return tb.Const(64, float64bits(float64(float32frombits(uint32(a.Val)))))
	}
	tb.UsesFloatConv = true
	return tb.mk(&Term{Op: OpF32to64, W: 64, Args: []*Term{a}})
}
func (tb *Table) F64to32(a *Term) *Term {
	if a.IsConst() {
		return tb.Const(32, uint64(float32bits(float32(float64frombits(a.Val)))))
	}
	if a.Op == OpF32to64 {
		return a.Args[0]
	}
	tb.UsesFloatConv = true
	return tb.mk(&Term{Op: OpF64to32, W: 32, Args: []*Term{a}})
}

// ---------- boolean / comparison ----------

func (tb *Table) Not(a *Term) *Term {
	if a.W != 0 {
		panic("Not on non-bool")
	}
	if a.IsConst() {
		return tb.Bool(a.Val == 0)
	}
	if a.Op == OpBNot {
		return a.Args[0]
	}
	return tb.mk(&Term{Op: OpBNot, W: 0, Args: []*Term{a}})
}
func (tb *Table) And(a, b *Term) *Term {
	if a.IsFalse() || b.IsFalse() {
		return tb.False
	}
	if a.IsTrue() {
		return b
	}
	if b.IsTrue() {
		return a
	}
	if a == b {
		return a
	}
	if tb.Not(a) == b {
		return tb.False
	}
	if a.ID > b.ID {
		a, b = b, a
	}
	return tb.mk(&Term{Op: OpBAnd, W: 0, Args: []*Term{a, b}})
}
func (tb *Table) Or(a, b *Term) *Term {
	if a.IsTrue() || b.IsTrue() {
		return tb.True
	}
	if a.IsFalse() {
		return b
	}
	if b.IsFalse() {
		return a
	}
	if a == b {
		return a
	}
	if tb.Not(a) == b {
		return tb.True
	}
	if a.ID > b.ID {
		a, b = b, a
	}
	return tb.mk(&Term{Op: OpBOr, W: 0, Args: []*Term{a, b}})
}
func (tb *Table) Implies(a, b *Term) *Term { return tb.Or(tb.Not(a), b) }

func (tb *Table) Ite(c, a, b *Term) *Term {
	if c.IsTrue() {
		return a
	}
	if c.IsFalse() {
		return b
	}
	if a == b {
		return a
	}
	if a.W != b.W {
		panic("ite width mismatch")
	}
	if a.W == 0 {
		if a.IsTrue() && b.IsFalse() {
			return c
		}
		if a.IsFalse() && b.IsTrue() {
			return tb.Not(c)
		}
	}
	return tb.mk(&Term{Op: OpIte, W: a.W, Args: []*Term{c, a, b}})
}

func (tb *Table) Eq(a, b *Term) *Term {
	if a.W != b.W {
		panic(fmt.Sprintf("eq width mismatch %d %d: %s ; %s", a.W, b.W, tb.Show(a), tb.Show(b)))
	}
	if a == b {
		return tb.True
	}
	if a.IsConst() && b.IsConst() {
		return tb.Bool(a.Val == b.Val)
	}
	if a.W == 0 {
		if a.IsTrue() {
			return b
		}
		if b.IsTrue() {
			return a
		}
		if a.IsFalse() {
			return tb.Not(b)
		}
		if b.IsFalse() {
			return tb.Not(a)
		}
	} else if a.W <= 64 {
		d := linCombine(tb.linOf(a), 1, tb.linOf(b), mask(a.W), a.W)
		if len(d.ts) == 0 {
			return tb.Bool(d.k == 0)
		}
		// ite(c, k1, k2) == k  folds
		if b.IsConst() && a.Op == OpIte && a.Args[1].IsConst() && a.Args[2].IsConst() {
			return tb.Ite(a.Args[0], tb.Bool(a.Args[1].Val == b.Val), tb.Bool(a.Args[2].Val == b.Val))
		}
		if a.IsConst() && b.Op == OpIte && b.Args[1].IsConst() && b.Args[2].IsConst() {
			return tb.Ite(b.Args[0], tb.Bool(b.Args[1].Val == a.Val), tb.Bool(b.Args[2].Val == a.Val))
		}
		// zext(x) == const
		if b.IsConst() && a.Op == OpZext {
			if b.Val > mask(a.Args[0].W) {
				return tb.False
			}
			return tb.Eq(a.Args[0], tb.Const(a.Args[0].W, b.Val))
		}
	}
	if a.ID > b.ID {
		a, b = b, a
	}
	return tb.mk(&Term{Op: OpEq, W: 0, Args: []*Term{a, b}})
}
func (tb *Table) Ne(a, b *Term) *Term { return tb.Not(tb.Eq(a, b)) }

func (tb *Table) Ult(a, b *Term) *Term {
	tb.sameW(a, b)
	if a == b {
		return tb.False
	}
	if a.IsConst() && b.IsConst() {
		return tb.Bool(a.Val < b.Val)
	}
	if b.IsConst() && b.Val == 0 {
		return tb.False
	}
	if a.Op == OpZext && b.IsConst() && b.Val > mask(a.Args[0].W) {
		return tb.True
	}
	if a.Op == OpZext && b.IsConst() {
		return tb.Ult(a.Args[0], tb.Const(a.Args[0].W, b.Val))
	}
	return tb.mk(&Term{Op: OpUlt, W: 0, Args: []*Term{a, b}})
}
func (tb *Table) Ule(a, b *Term) *Term { return tb.Not(tb.Ult(b, a)) }
func (tb *Table) Slt(a, b *Term) *Term {
	tb.sameW(a, b)
	if a == b {
		return tb.False
	}
	if a.IsConst() && b.IsConst() {
		return tb.Bool(a.SignedVal() < b.SignedVal())
	}
	// zext(x) <s const, with x narrower: zext is non-negative
	if a.Op == OpZext && b.IsConst() {
		if b.SignedVal() <= 0 {
			return tb.False
		}
		return tb.Ult(a, b)
	}
	if b.Op == OpZext && a.IsConst() {
		if a.SignedVal() < 0 {
			return tb.True
		}
		return tb.Ult(a, b)
	}
	return tb.mk(&Term{Op: OpSlt, W: 0, Args: []*Term{a, b}})
}
func (tb *Table) Sle(a, b *Term) *Term { return tb.Not(tb.Slt(b, a)) }

// ---------- printing ----------

func sortOf(w int) string {
	if w == 0 {
		return "Bool"
	}
	return fmt.Sprintf("(_ BitVec %d)", w)
}

func constLit(w int, v uint64) string {
	if w == 0 {
		if v != 0 {
			return "true"
		}
		return "false"
	}
	if w%4 == 0 {
		return fmt.Sprintf("#x%0*x", w/4, v)
	}
	return fmt.Sprintf("#b%0*b", w, v)
}

func (t *Term) ref() string {
	switch t.Op {
	case OpConst:
		return constLit(t.W, t.Val)
	case OpVar:
		return fmt.Sprintf("|%s@%d|", t.Name, t.W)
	}
	return fmt.Sprintf("t%d", t.ID)
}

// body returns the SMT-LIB body of a non-leaf term with children by reference.
func (t *Term) body() string {
	var sb strings.Builder
	switch t.Op {
	case OpExtract:
		fmt.Fprintf(&sb, "((_ extract %d %d) %s)", t.Hi, t.Lo, t.Args[0].ref())
	case OpZext:
		fmt.Fprintf(&sb, "((_ zero_extend %d) %s)", t.Hi, t.Args[0].ref())
	case OpSext:
		fmt.Fprintf(&sb, "((_ sign_extend %d) %s)", t.Hi, t.Args[0].ref())
	case OpSelect:
		fmt.Fprintf(&sb, "(|arr:%s| %s)", t.Name, t.Args[0].ref())
	default:
		sb.WriteString("(")
		sb.WriteString(opNames[t.Op])
		for _, a := range t.Args {
			sb.WriteString(" ")
			sb.WriteString(a.ref())
		}
		sb.WriteString(")")
	}
	return sb.String()
}

// Show renders a term fully inlined (for diagnostics; bounded depth).
func (tb *Table) Show(t *Term) string { return showDepth(t, 6) }

func showDepth(t *Term, d int) string {
	switch t.Op {
	case OpConst:
		if t.W == 0 {
			return constLit(0, t.Val)
		}
		return fmt.Sprintf("%d", t.SignedVal())
	case OpVar:
		return t.Name
	}
	if d == 0 {
		return fmt.Sprintf("t%d", t.ID)
	}
	var parts []string
	for _, a := range t.Args {
		parts = append(parts, showDepth(a, d-1))
	}
	switch t.Op {
	case OpExtract:
		return fmt.Sprintf("%s[%d:%d]", parts[0], t.Hi, t.Lo)
	case OpZext:
		return fmt.Sprintf("zx%d(%s)", t.W, parts[0])
	case OpSext:
		return fmt.Sprintf("sx%d(%s)", t.W, parts[0])
	case OpSelect:
		return fmt.Sprintf("%s[%s]", t.Name, parts[0])
	}
	return "(" + opNames[t.Op] + " " + strings.Join(parts, " ") + ")"
}

// Eval evaluates a term under an assignment of variables and UF tables.
type Model struct {
	Vars map[string]uint64
	UFs  map[string]map[uint64]uint8
}

type modelMiss struct{}

// EvalStrict is Eval that panics with modelMiss when the model lacks a symbol or array read.
func (tb *Table) EvalStrict(t *Term, m *Model, memo map[int]uint64) uint64 {
	tb.strict = true
	defer func() { tb.strict = false }()
	return tb.Eval(t, m, memo)
}

func (tb *Table) Eval(t *Term, m *Model, memo map[int]uint64) uint64 {
	if v, ok := memo[t.ID]; ok {
		return v
	}
	var r uint64
	a := func(i int) uint64 { return tb.Eval(t.Args[i], m, memo) }
	sa := func(i int) int64 {
		v := a(i)
		w := t.Args[i].W
		if w >= 64 {
			return int64(v)
		}
		return int64(v<<uint(64-w)) >> uint(64-w)
	}
	b2u := func(b bool) uint64 {
		if b {
			return 1
		}
		return 0
	}
	switch t.Op {
	case OpConst:
		r = t.Val
	case OpVar:
		v, ok := m.Vars[fmt.Sprintf("%s@%d", t.Name, t.W)]
		if !ok {
			v, ok = m.Vars[t.Name]
		}
		if !ok && tb.strict {
			// a symbol the path condition does not mention yet: any value extends the model
			m.Vars[fmt.Sprintf("%s@%d", t.Name, t.W)] = 0
		}
		r = v
	case OpSelect:
		idx := a(0)
		v, ok := m.UFs[t.Name][idx]
		if !ok && tb.strict {
			// an array cell no constraint mentions yet: fix it to 0 in the extended model
			if m.UFs[t.Name] == nil {
				m.UFs[t.Name] = map[uint64]uint8{}
			}
			m.UFs[t.Name][idx] = 0
		}
		r = uint64(v)
	case OpAdd:
		r = a(0) + a(1)
	case OpSub:
		r = a(0) - a(1)
	case OpNeg:
		r = -a(0)
	case OpMul:
		r = a(0) * a(1)
	case OpAnd:
		r = a(0) & a(1)
	case OpOr:
		r = a(0) | a(1)
	case OpXor:
		r = a(0) ^ a(1)
	case OpNot:
		r = ^a(0)
	case OpShl:
		if a(1) >= uint64(t.W) {
			r = 0
		} else {
			r = a(0) << a(1)
		}
	case OpLshr:
		if a(1) >= uint64(t.W) {
			r = 0
		} else {
			r = a(0) >> a(1)
		}
	case OpAshr:
		s := a(1)
		if s >= uint64(t.W) {
			s = uint64(t.W - 1)
		}
		r = uint64(sa(0) >> s)
	case OpUdiv:
		if a(1) == 0 {
			r = mask(t.W)
		} else {
			r = a(0) / a(1)
		}
	case OpUrem:
		if a(1) == 0 {
			r = a(0)
		} else {
			r = a(0) % a(1)
		}
	case OpSdiv:
		x, y := sa(0), sa(1)
		switch {
		case y == 0:
			if x >= 0 {
				r = mask(t.W)
			} else {
				r = 1
			}
		case y == -1:
			r = uint64(-x)
		default:
			r = uint64(x / y)
		}
	case OpSrem:
		x, y := sa(0), sa(1)
		switch {
		case y == 0:
			r = uint64(x)
		case y == -1:
			r = 0
		default:
			r = uint64(x % y)
		}
	case OpConcat:
		r = a(0)<<uint(t.Args[1].W) | a(1)
	case OpExtract:
		r = a(0) >> uint(t.Lo)
	case OpZext:
		r = a(0)
	case OpSext:
		r = uint64(sa(0))
	case OpIte:
		if a(0) != 0 {
			r = a(1)
		} else {
			r = a(2)
		}
	case OpEq:
		r = b2u(a(0) == a(1))
	case OpUlt:
		r = b2u(a(0) < a(1))
	case OpUle:
		r = b2u(a(0) <= a(1))
	case OpSlt:
		r = b2u(sa(0) < sa(1))
	case OpSle:
		r = b2u(sa(0) <= sa(1))
	case OpBAnd:
		r = b2u(a(0) != 0 && a(1) != 0)
	case OpBOr:
		r = b2u(a(0) != 0 || a(1) != 0)
	case OpBNot:
		r = b2u(a(0) == 0)
	case OpF32to64:
		if tb.strict {
			panic(modelMiss{}) // uninterpreted in the solver: its model need not be IEEE
		}
		r = float64bits(float64(float32frombits(uint32(a(0)))))
	case OpF64to32:
		if tb.strict {
			panic(modelMiss{})
		}
		r = uint64(float32bits(float32(float64frombits(a(0)))))
	default:
		panic("eval: op")
	}
	if t.W > 0 {
		r &= mask(t.W)
	}
	memo[t.ID] = r
	return r
}

var _ = bits.Len64

func float32bits(f float32) uint32     { return math.Float32bits(f) }
func float32frombits(b uint32) float32 { return math.Float32frombits(b) }
func float64bits(f float64) uint64     { return math.Float64bits(f) }
func float64frombits(b uint64) float64 { return math.Float64frombits(b) }
