package sym

import (
	"fmt"
	"go/types"
	"strings"

	"golang.org/x/tools/go/ssa"
)

type intrinsic = func(e *Exec, args []Value, call *ssa.CallCommon) Value

func (e *Exec) symName(base string) string {
	k := e.symCount[base]
	e.symCount[base] = k + 1
	if k == 0 {
		return base
	}
	return fmt.Sprintf("%s#%d", base, k)
}

func (e *Exec) argStr(v Value, what string) string {
	s, ok := v.(*Str)
	if !ok {
		e.unsupported("%s: expected string", what)
	}
	cs, ok := e.concreteStr(s)
	if !ok {
		e.unsupported("%s: string argument must be concrete", what)
	}
	return cs
}

func (e *Exec) argInt(v Value, what string) int {
	t, ok := v.(*Term)
	if !ok || !t.IsConst() {
		e.unsupported("%s: integer argument must be concrete", what)
	}
	return int(t.SignedVal())
}

func (e *Exec) freshBV(name string, w int) *Term {
	n := e.symName(name)
	t := e.tb.Var(n, w)
	kind := "bv"
	if w == 0 {
		kind = "bool"
	}
	e.inputs = append(e.inputs, inputRec{Name: n, Kind: kind, T: t, W: w})
	return t
}

// freshInternal makes a symbol that is not a harness input (Skolem constants, havoc).
func (e *Exec) freshInternal(name string, w int) *Term {
	return e.tb.Var(e.symName("_"+name), w)
}

func (e *Exec) freshBytes(name string, maxLen int) *Slice {
	n := e.symName(name)
	ln := e.tb.Var(n+".len", 64)
	e.inputs = append(e.inputs, inputRec{Name: n, Kind: "bytes", T: ln, Arr: n})
	e.assume(e.tb.And(e.tb.Sle(e.c64(0), ln), e.tb.Sle(ln, e.c64(int64(maxLen)))))
	o := e.newObj(ObjBytes, types.Typ[types.Uint8])
	o.Bytes = &arrSym{name: n}
	o.Cap = ln
	o.Label = n
	return &Slice{Obj: o, Off: e.c64(0), Len: ln, Cap: ln, MaxLen: maxLen}
}

func registerIntrinsics(e *Exec) {
	in := e.intrinsics
	bv := func(w int) intrinsic {
		return func(e *Exec, a []Value, _ *ssa.CallCommon) Value {
			return e.freshBV(e.argStr(a[0], "vh input name"), w)
		}
	}
	in["vh:vhU64"] = bv(64)
	in["vh:vhI64"] = bv(64)
	in["vh:vhInt"] = bv(64)
	in["vh:vhU32"] = bv(32)
	in["vh:vhI32"] = bv(32)
	in["vh:vhU8"] = bv(8)
	in["vh:vhBool"] = bv(0)
	in["vh:vhF64"] = bv(64)
	in["vh:vhF32"] = bv(32)
	in["vh:vhBytes"] = func(e *Exec, a []Value, _ *ssa.CallCommon) Value {
		return e.freshBytes(e.argStr(a[0], "vhBytes"), e.argInt(a[1], "vhBytes max"))
	}
	in["vh:vhString"] = func(e *Exec, a []Value, _ *ssa.CallCommon) Value {
		s := e.freshBytes(e.argStr(a[0], "vhString"), e.argInt(a[1], "vhString max"))
		return &Str{Arr: s.Obj.Bytes, Off: s.Off, Len: s.Len, MaxLen: s.MaxLen}
	}
	in["vh:vhChoice"] = func(e *Exec, a []Value, _ *ssa.CallCommon) Value {
		name := e.symName(e.argStr(a[0], "vhChoice"))
		n := e.argInt(a[1], "vhChoice n")
		k := e.choice(n)
		e.inputs = append(e.inputs, inputRec{Name: name, Kind: "choice", W: k})
		return e.c64(int64(k))
	}
	in["vh:vhAssume"] = func(e *Exec, a []Value, _ *ssa.CallCommon) Value {
		e.assume(a[0].(*Term))
		return nil
	}
	in["vh:vhAssert"] = func(e *Exec, a []Value, _ *ssa.CallCommon) Value {
		e.assertProp(e.argStr(a[0], "vhAssert id"), a[1].(*Term))
		return nil
	}
	in["vh:vhCatch"] = func(e *Exec, a []Value, _ *ssa.CallCommon) Value {
		return e.tb.Bool(e.catch(func() { e.callClosure(a[0]) }) != nil)
	}
	in["vh:vhAssertBytesEq"] = func(e *Exec, a []Value, _ *ssa.CallCommon) Value {
		id := e.argStr(a[0], "assert id")
		x, y := a[1].(*Slice), a[2].(*Slice)
		e.assertSeqEq(id, x.Len, y.Len, func(j *Term) *Term { return e.sliceByteAtSafe(x, j) }, func(j *Term) *Term { return e.sliceByteAtSafe(y, j) })
		return nil
	}
	in["vh:vhAssertStrEq"] = func(e *Exec, a []Value, _ *ssa.CallCommon) Value {
		id := e.argStr(a[0], "assert id")
		x, y := a[1].(*Str), a[2].(*Str)
		e.assertSeqEq(id, x.Len, y.Len, func(j *Term) *Term { return e.strAt(x, j) }, func(j *Term) *Term { return e.strAt(y, j) })
		return nil
	}
	in["vh:vhAssertStrBytesEq"] = func(e *Exec, a []Value, _ *ssa.CallCommon) Value {
		id := e.argStr(a[0], "assert id")
		x, y := a[1].(*Str), a[2].(*Slice)
		e.assertSeqEq(id, x.Len, y.Len, func(j *Term) *Term { return e.strAt(x, j) }, func(j *Term) *Term { return e.sliceByteAtSafe(y, j) })
		return nil
	}
	in["vh:vhAlias"] = func(e *Exec, a []Value, _ *ssa.CallCommon) Value {
		x, y := a[0].(*Slice), a[1].(*Slice)
		return e.tb.Bool(x.Obj != nil && x.Obj == y.Obj)
	}
	in["vh:vhEpoch"] = func(e *Exec, a []Value, _ *ssa.CallCommon) Value {
		e.epoch++
		return nil
	}
	in["vh:vhTrack"] = func(e *Exec, a []Value, _ *ssa.CallCommon) Value {
		e.track = a[0].(*Term).IsTrue()
		return nil
	}
	in["vh:vhWrites"] = func(e *Exec, a []Value, _ *ssa.CallCommon) Value {
		for _, w := range e.writes {
			e.note("write to pre-existing object %s at %s", w.obj.Label, w.site)
		}
		return e.c64(int64(len(e.writes)))
	}
	in["vh:vhAllocTotal"] = func(e *Exec, a []Value, _ *ssa.CallCommon) Value {
		t := e.c64(0)
		for _, al := range e.allocs {
			t = e.tb.Add(t, al.bytes)
		}
		return t
	}
	in["vh:vhAllocReset"] = func(e *Exec, a []Value, _ *ssa.CallCommon) Value {
		e.allocs = nil
		return nil
	}
	in["vh:vhSetLoopBound"] = func(e *Exec, a []Value, _ *ssa.CallCommon) Value {
		e.loopBound = e.argInt(a[0], "loop bound")
		return nil
	}
	in["vh:vhMapOrderAll"] = func(e *Exec, a []Value, _ *ssa.CallCommon) Value {
		e.mapAll = a[0].(*Term).IsTrue()
		return nil
	}
	in["vh:vhStubNested"] = func(e *Exec, a []Value, _ *ssa.CallCommon) Value {
		e.stubNested = a[0].(*Term).IsTrue()
		return nil
	}
	// assume-guarantee stub for nested message decoding: returns nil or an opaque error
	in["(google.golang.org/protobuf/proto.UnmarshalOptions).Unmarshal"] = func(e *Exec, a []Value, call *ssa.CallCommon) Value {
		if !e.stubNested {
			fn := e.Prog.ImportedPackage("google.golang.org/protobuf/proto").Type("UnmarshalOptions")
			m := e.Prog.LookupMethod(fn.Type(), fn.Package().Pkg, "Unmarshal")
			return e.callNoIntrinsic(m, a)
		}
		if e.choice(2) == 1 {
			return e.opaqueIface("error", "nested unmarshal error")
		}
		return &Iface{}
	}
	in["vh:vhSnapshot"] = func(e *Exec, a []Value, _ *ssa.CallCommon) Value {
		sl := a[0].(*Slice)
		var arr ArrExpr
		if sl.Obj != nil {
			arr = sl.Obj.Bytes
		}
		e.snaps = append(e.snaps, arr)
		return e.c64(int64(len(e.snaps) - 1))
	}
	// vhUnchanged: no store/copy/append touched the backing array since the snapshot
	in["vh:vhUnchanged"] = func(e *Exec, a []Value, _ *ssa.CallCommon) Value {
		sl := a[0].(*Slice)
		k := e.argInt(a[1], "snapshot id")
		var arr ArrExpr
		if sl.Obj != nil {
			arr = sl.Obj.Bytes
		}
		return e.tb.Bool(arr == e.snaps[k])
	}
	// vhCallAnon(name, "var1", v1, "var2", v2, ...): calls the anonymous function whose SSA
	// name ends with name, binding its free variables by source name (each captured
	// variable gets a fresh cell holding the given value). Lets a harness drive a closure
	// that is not reachable from Go source.
	in["vh:vhCallAnon"] = func(e *Exec, a []Value, call *ssa.CallCommon) Value {
		name := e.argStr(a[0], "vhCallAnon")
		var target *ssa.Function
		for fn := range e.allFuncs() {
			if fn.Parent() != nil && strings.HasSuffix(fn.String(), name) {
				if target != nil && target != fn {
					e.unsupported("vhCallAnon: %s is ambiguous", name)
				}
				target = fn
			}
		}
		if target == nil {
			e.unsupported("vhCallAnon: no anonymous function named %s", name)
		}
		rest := a[1].(*Slice)
		n := int(e.concretize(rest.Len, "vhCallAnon args"))
		off := int(e.concretize(rest.Off, "vhCallAnon args"))
		bind := map[string]Value{}
		for i := 0; i+1 < n; i += 2 {
			k := rest.Obj.Cells[off+i].(*Iface)
			v := rest.Obj.Cells[off+i+1].(*Iface)
			bind[e.argStr(k.Val, "vhCallAnon var name")] = v.Val
		}
		var free []Value
		for _, fv := range target.FreeVars {
			v, ok := bind[fv.Name()]
			if !ok {
				e.unsupported("vhCallAnon: free variable %s of %s not bound", fv.Name(), name)
			}
			elem := fv.Type().(*types.Pointer).Elem()
			o := e.newObj(ObjCell, elem)
			o.Val = copyVal(v)
			free = append(free, &Ptr{Obj: o})
		}
		res := e.call(target, nil, free)
		rt := target.Signature.Results()
		if rt.Len() != 1 {
			return &Iface{}
		}
		return &Iface{Typ: rt.At(0).Type(), Val: res}
	}
	in["vh:vhRecord"] = func(e *Exec, a []Value, _ *ssa.CallCommon) Value {
		t, ok := a[1].(*Term)
		if !ok || !t.IsConst() {
			e.unsupported("vhRecord of a non-constant value")
		}
		e.res.Records = append(e.res.Records, fmt.Sprintf("%s %d", e.argStr(a[0], "vhRecord"), t.Val))
		return nil
	}
	in["vh:vhWatch"] = func(e *Exec, a []Value, _ *ssa.CallCommon) Value { return nil }
	in["vh:vhSummaries"] = func(e *Exec, a []Value, _ *ssa.CallCommon) Value {
		e.noSummaries = !a[0].(*Term).IsTrue() || e.Cfg.NoSummaries
		return nil
	}
	in["vh:vhNote"] = func(e *Exec, a []Value, _ *ssa.CallCommon) Value { return nil }
	in["vh:vhSymbolic"] = func(e *Exec, a []Value, _ *ssa.CallCommon) Value { return e.tb.True }

	registerLibStubs(e)
	registerPValue(e)
	registerRapid(e)
	registerPValueHarness(e)
}

func (e *Exec) sliceByteAtSafe(s *Slice, j *Term) *Term {
	if s.Obj == nil {
		return e.tb.Const(8, 0)
	}
	return e.sliceByteAt(s, j)
}

// catch runs f and returns the Go-level panic it raised, if any.
func (e *Exec) catch(f func()) (gp *goPanic) {
	stack, depth := e.stack, e.depth
	defer func() {
		if r := recover(); r != nil {
			if p, ok := r.(*goPanic); ok {
				gp = p
				e.stack, e.depth = stack, depth
				return
			}
			panic(r)
		}
	}()
	f()
	return nil
}

// assertSeqEq asserts that two byte sequences are equal, using a Skolem index.
// Sound only in assertion (negated, existential) position.
func (e *Exec) assertSeqEq(id string, la, lb *Term, a, b func(*Term) *Term) {
	tb := e.tb
	e.assertProp(id+".len", tb.Eq(la, lb))
	if (la.IsConst() && la.Val == 0) || (lb.IsConst() && lb.Val == 0) {
		// nothing to compare pointwise
		e.assertProp(id+".bytes", tb.True)
		return
	}
	j := e.freshInternal("sk."+id, 64)
	inr := tb.And(tb.Sle(e.c64(0), j), tb.Slt(j, la))
	e.assertProp(id+".bytes", tb.Implies(inr, tb.Eq(a(j), b(j))))
}

var errorOpaqueSeq int

func registerLibStubs(e *Exec) {
	in := e.intrinsics
	newErr := func(label string) intrinsic {
		return func(e *Exec, a []Value, call *ssa.CallCommon) Value {
			name := label
			if len(a) > 0 {
				if s, ok := a[0].(*Str); ok {
					if cs, ok := e.concreteStr(s); ok {
						name = cs
					}
				}
			}
			return e.opaqueIface("error", name)
		}
	}
	in["fmt.Errorf"] = newErr("fmt.Errorf")
	in["errors.New"] = newErr("errors.New")
	in["(*google.golang.org/protobuf/internal/errors.prefixError).Error"] = nil
	delete(in, "(*google.golang.org/protobuf/internal/errors.prefixError).Error")
	in["google.golang.org/protobuf/internal/errors.New"] = newErr("errors.New")
	in["google.golang.org/protobuf/internal/errors.Wrap"] = newErr("errors.Wrap")
	in["google.golang.org/protobuf/internal/errors.InvalidUTF8"] = newErr("invalid utf8")
	in["google.golang.org/protobuf/internal/errors.RequiredNotSet"] = newErr("required not set")
	opaqueStr := func(e *Exec, a []Value, call *ssa.CallCommon) Value {
		s := e.freshOpaqueBytes("fmt")
		return &Str{Arr: s.Obj.Bytes, Off: s.Off, Len: s.Len, MaxLen: -1}
	}
	in["fmt.Sprintf"] = opaqueStr
	in["fmt.Sprint"] = opaqueStr
	in["fmt.Sprintln"] = opaqueStr
	in["strconv.Itoa"] = opaqueStr
	in["strconv.FormatInt"] = opaqueStr
	in["strconv.FormatUint"] = opaqueStr
	in["strconv.Quote"] = opaqueStr
	nop := func(e *Exec, a []Value, call *ssa.CallCommon) Value { return nil }
	in["log.Printf"] = nop
	in["log.Println"] = nop
	in["fmt.Printf"] = nop
	in["fmt.Println"] = nop

	id := func(e *Exec, a []Value, call *ssa.CallCommon) Value { return a[0] }
	in["math.Float32bits"] = id
	in["math.Float64bits"] = id
	in["math.Float32frombits"] = id
	in["math.Float64frombits"] = id
	in["math.Signbit"] = func(e *Exec, a []Value, call *ssa.CallCommon) Value {
		t := a[0].(*Term)
		if t.Op == OpF32to64 {
			t = t.Args[0]
		}
		return e.tb.Eq(e.tb.Extract(t, t.W-1, t.W-1), e.tb.Const(1, 1))
	}
	in["math.IsNaN"] = func(e *Exec, a []Value, call *ssa.CallCommon) Value {
		t := a[0].(*Term)
		if t.Op == OpF32to64 {
			x := t.Args[0]
			return e.tb.Ult(e.tb.Const(32, 0x7f800000), e.tb.BvAnd(x, e.tb.Const(32, 0x7fffffff)))
		}
		return e.tb.Ult(e.tb.Const(64, 0x7ff0000000000000), e.tb.BvAnd(t, e.tb.Const(64, 0x7fffffffffffffff)))
	}

	// protobuf-go internals that are unsafe/reflection based
	const impl = "google.golang.org/protobuf/internal/impl."
	in["("+impl+"Export).NewError"] = newErr("protoimpl.X.NewError")
	in["("+impl+"Export).MessageStateOf"] = func(e *Exec, a []Value, call *ssa.CallCommon) Value {
		// a detached, never-read MessageState
		var t types.Type = types.Typ[types.Int]
		if call != nil {
			if sig, ok := call.Value.Type().(*types.Signature); ok && sig.Results().Len() == 1 {
				if pt, ok := sig.Results().At(0).Type().(*types.Pointer); ok {
					t = pt.Elem()
				}
			}
		}
		o := e.newObj(ObjCell, t)
		o.Val = e.tb.Const(64, 0)
		o.Label = "messageState"
		return &Ptr{Obj: o}
	}
	in["(*"+impl+"messageState).StoreMessageInfo"] = nop
	in["(*"+impl+"messageState).LoadMessageInfo"] = func(e *Exec, a []Value, call *ssa.CallCommon) Value { return &Ptr{} }
	in["("+impl+"Export).MessageStringOf"] = opaqueStr
	in["("+impl+"Export).EnumStringOf"] = opaqueStr
	in["google.golang.org/protobuf/proto.checkInitialized"] = func(e *Exec, a []Value, call *ssa.CallCommon) Value { return &Iface{} }

	// (*anypb.Any).UnmarshalTo: environment contract - nil or an arbitrary error
	in["(*google.golang.org/protobuf/types/known/anypb.Any).UnmarshalTo"] = func(e *Exec, a []Value, call *ssa.CallCommon) Value {
		if e.choice(2) == 1 {
			return e.opaqueIface("error", "UnmarshalTo error")
		}
		return &Iface{}
	}

	// errors.Is / errors.As over opaque and stub errors: identity, no unwrapping chains
	in["errors.Is"] = func(e *Exec, a []Value, call *ssa.CallCommon) Value {
		x, y := a[0].(*Iface), a[1].(*Iface)
		if x.Typ == nil || y.Typ == nil {
			return e.tb.Bool(x.Typ == nil && y.Typ == nil)
		}
		if !types.Identical(x.Typ, y.Typ) {
			return e.tb.False
		}
		return e.valEqAny(x.Val, y.Val)
	}
	in["errors.As"] = func(e *Exec, a []Value, call *ssa.CallCommon) Value { return e.tb.False }

	// Verified summaries of the two hot pure helpers of the code under test. The real
	// functions go through bits.Len64 (table lookup) and a division by 7; the summaries are
	// the same function written as a sum of threshold tests, which the interval reasoner can
	// bound ([1,10]) and the solver need not bit-blast a divider for. Every check that uses
	// them also PROVES, on the current tree, that the real SSA of Sov/Soz equals the summary
	// for all 2^64 arguments (harness VH_*_SUMMARY, which switches summaries off to reach the
	// real code).
	sovSummary := func(e *Exec, x *Term) *Term {
		tb := e.tb
		r := e.c64(1)
		for k := 1; k <= 9; k++ {
			r = tb.Add(r, tb.Ite(tb.Ule(tb.Const(64, uint64(1)<<uint(7*k)), x), e.c64(1), e.c64(0)))
		}
		return r
	}
	const rtPkg = "github.com/cosmos/cosmos-proto/runtime."
	in[rtPkg+"Sov"] = func(e *Exec, a []Value, call *ssa.CallCommon) Value {
		if e.noSummaries {
			return e.callNoIntrinsic(e.funcByName(rtPkg+"Sov"), a)
		}
		return sovSummary(e, a[0].(*Term))
	}
	in[rtPkg+"Soz"] = func(e *Exec, a []Value, call *ssa.CallCommon) Value {
		if e.noSummaries {
			return e.callNoIntrinsic(e.funcByName(rtPkg+"Soz"), a)
		}
		x := a[0].(*Term)
		tb := e.tb
		z := tb.BvXor(tb.Shl(x, e.c64(1)), tb.Ashr(x, e.c64(63)))
		return sovSummary(e, z)
	}

	// sync: single goroutine
	in["(*sync.Mutex).Lock"] = nop
	in["(*sync.Mutex).Unlock"] = nop
	in["(*sync.RWMutex).Lock"] = nop
	in["(*sync.RWMutex).Unlock"] = nop
	in["(*sync.RWMutex).RLock"] = nop
	in["(*sync.RWMutex).RUnlock"] = nop
	in["(*sync.Once).Do"] = func(e *Exec, a []Value, call *ssa.CallCommon) Value {
		p := e.asPtr(a[0])
		key := fmt.Sprintf("once:%d:%v", p.Obj.ID, p.Path)
		if _, done := e.memo[key]; done {
			return nil
		}
		e.memo[key] = e.tb.True
		e.callClosure(a[1])
		return nil
	}

	// sort: insertion sort driving the real comparison (exact for n <= 12)
	in["sort.Slice"] = func(e *Exec, a []Value, call *ssa.CallCommon) Value {
		ifc := a[0].(*Iface)
		sl, ok := ifc.Val.(*Slice)
		if !ok {
			e.unsupported("sort.Slice on %T", ifc.Val)
		}
		less := a[1]
		n := int(e.concretize(sl.Len, "sort.Slice length"))
		if n > 12 {
			e.unsupported("sort.Slice of %d > 12 elements", n)
		}
		if n < 2 {
			return nil
		}
		off := int(e.concretize(sl.Off, "sort.Slice offset"))
		if sl.Obj.Kind != ObjCells {
			e.unsupported("sort.Slice on byte slice")
		}
		cells := sl.Obj.Cells
		e.recordWrite(sl.Obj, "sort.Slice")
		for i := 1; i < n; i++ {
			for j := i; j > 0; j-- {
				r := e.callClosure(less, e.c64(int64(j)), e.c64(int64(j-1))).(*Term)
				if !e.branch(r, false) {
					break
				}
				cells[off+j], cells[off+j-1] = cells[off+j-1], cells[off+j]
			}
		}
		return nil
	}
	in["sort.Strings"] = func(e *Exec, a []Value, call *ssa.CallCommon) Value {
		sl := a[0].(*Slice)
		n := int(e.concretize(sl.Len, "sort.Strings length"))
		if n > 12 {
			e.unsupported("sort.Strings of %d > 12 elements", n)
		}
		if n < 2 {
			return nil
		}
		off := int(e.concretize(sl.Off, "sort.Strings offset"))
		cells := sl.Obj.Cells
		e.recordWrite(sl.Obj, "sort.Strings")
		for i := 1; i < n; i++ {
			for j := i; j > 0; j-- {
				r := e.strLess(cells[off+j].(*Str), cells[off+j-1].(*Str))
				if !e.branch(r, false) {
					break
				}
				cells[off+j], cells[off+j-1] = cells[off+j-1], cells[off+j]
			}
		}
		return nil
	}
}

func (e *Exec) freshOpaqueBytes(name string) *Slice {
	n := e.symName("_" + name)
	ln := e.tb.Var(n+".len", 64)
	e.assume(e.tb.And(e.tb.Sle(e.c64(0), ln), e.tb.Sle(ln, e.c64(1<<20))))
	o := e.newObj(ObjBytes, types.Typ[types.Uint8])
	o.Bytes = &arrSym{name: n}
	o.Cap = ln
	return &Slice{Obj: o, Off: e.c64(0), Len: ln, Cap: ln, MaxLen: -1}
}
