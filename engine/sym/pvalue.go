package sym

import (
	"go/types"
	"strings"

	"golang.org/x/tools/go/ssa"
)

// Model of protoreflect.Value / protoreflect.MapKey (the real types pack an
// unsafe.Pointer; their documented behaviour is a tagged union).

const prPkg = "google.golang.org/protobuf/reflect/protoreflect."

func (e *Exec) pvPanic(what string, got *PValue) {
	k := got.Kind
	if k == "" {
		k = "<invalid>"
	}
	panic(&goPanic{kind: "explicit", detail: "protoreflect: type mismatch: cannot convert " + k + " to " + what})
}

func pv(a []Value) *PValue {
	if p, ok := a[0].(*PValue); ok {
		return p
	}
	return &PValue{}
}

func registerPValue(e *Exec) {
	in := e.intrinsics
	mk := func(kind string, conv func(e *Exec, v Value) Value) intrinsic {
		return func(e *Exec, a []Value, call *ssa.CallCommon) Value {
			v := a[0]
			if conv != nil {
				v = conv(e, v)
			}
			return &PValue{Kind: kind, V: v}
		}
	}
	sext := func(e *Exec, v Value) Value { return e.tb.Sext(v.(*Term), 64) }
	zext := func(e *Exec, v Value) Value { return e.tb.Zext(v.(*Term), 64) }
	in[prPkg+"ValueOfBool"] = mk("bool", nil)
	in[prPkg+"ValueOfInt32"] = mk("int32", sext)
	in[prPkg+"ValueOfInt64"] = mk("int64", nil)
	in[prPkg+"ValueOfUint32"] = mk("uint32", zext)
	in[prPkg+"ValueOfUint64"] = mk("uint64", nil)
	in[prPkg+"ValueOfFloat32"] = mk("float32", func(e *Exec, v Value) Value { return e.tb.F32to64(v.(*Term)) })
	in[prPkg+"ValueOfFloat64"] = mk("float64", nil)
	in[prPkg+"ValueOfString"] = mk("string", nil)
	in[prPkg+"ValueOfBytes"] = mk("bytes", nil)
	in[prPkg+"ValueOfEnum"] = mk("enum", nil)
	ifaceKind := func(kind string) intrinsic {
		return func(e *Exec, a []Value, call *ssa.CallCommon) Value {
			return &PValue{Kind: kind, V: a[0]}
		}
	}
	in[prPkg+"ValueOfMessage"] = ifaceKind("message")
	in[prPkg+"ValueOfList"] = ifaceKind("list")
	in[prPkg+"ValueOfMap"] = ifaceKind("map")
	in[prPkg+"ValueOf"] = func(e *Exec, a []Value, call *ssa.CallCommon) Value {
		ifc := a[0].(*Iface)
		if ifc.Typ == nil {
			return &PValue{}
		}
		if b, ok := ifc.Typ.(*types.Basic); ok {
			switch b.Kind() {
			case types.Bool:
				return &PValue{Kind: "bool", V: ifc.Val}
			case types.Int32:
				return &PValue{Kind: "int32", V: sext(e, ifc.Val)}
			case types.Int64:
				return &PValue{Kind: "int64", V: ifc.Val}
			case types.Uint32:
				return &PValue{Kind: "uint32", V: zext(e, ifc.Val)}
			case types.Uint64:
				return &PValue{Kind: "uint64", V: ifc.Val}
			case types.Float32:
				return &PValue{Kind: "float32", V: e.tb.F32to64(ifc.Val.(*Term))}
			case types.Float64:
				return &PValue{Kind: "float64", V: ifc.Val}
			case types.String:
				return &PValue{Kind: "string", V: ifc.Val}
			}
		}
		if namedPath(ifc.Typ) == prPkg+"EnumNumber" {
			return &PValue{Kind: "enum", V: ifc.Val}
		}
		if sl, ok := ifc.Typ.Underlying().(*types.Slice); ok && isByteType(sl.Elem()) {
			return &PValue{Kind: "bytes", V: ifc.Val}
		}
		for _, k := range []struct{ name, kind string }{{"Message", "message"}, {"List", "list"}, {"Map", "map"}} {
			if it := e.lookupNamedType(prPkg + k.name); it != nil {
				if e.implements(ifc.Typ, ifc.Val, it.Underlying().(*types.Interface)) {
					return &PValue{Kind: k.kind, V: ifc}
				}
			}
		}
		panic(&goPanic{kind: "explicit", detail: "protoreflect.ValueOf: invalid type " + ifc.Typ.String()})
	}

	meth := func(recv, name string, f intrinsic) {
		in["("+prPkg+recv+")."+name] = f
	}
	for _, recv := range []string{"Value", "MapKey"} {
		recv := recv
		meth(recv, "IsValid", func(e *Exec, a []Value, _ *ssa.CallCommon) Value { return e.tb.Bool(pv(a).Kind != "") })
		meth(recv, "Bool", func(e *Exec, a []Value, _ *ssa.CallCommon) Value {
			p := pv(a)
			if p.Kind != "bool" {
				e.pvPanic("bool", p)
			}
			return p.V
		})
		meth(recv, "Int", func(e *Exec, a []Value, _ *ssa.CallCommon) Value {
			p := pv(a)
			if p.Kind != "int32" && p.Kind != "int64" {
				e.pvPanic("int", p)
			}
			return p.V
		})
		meth(recv, "Uint", func(e *Exec, a []Value, _ *ssa.CallCommon) Value {
			p := pv(a)
			if p.Kind != "uint32" && p.Kind != "uint64" {
				e.pvPanic("uint", p)
			}
			return p.V
		})
		meth(recv, "String", func(e *Exec, a []Value, _ *ssa.CallCommon) Value {
			p := pv(a)
			if p.Kind == "string" {
				return p.V
			}
			// any other kind is formatted, never a panic
			s := e.freshOpaqueBytes("valuestr")
			return &Str{Arr: s.Obj.Bytes, Off: s.Off, Len: s.Len, MaxLen: -1}
		})
		meth(recv, "Interface", func(e *Exec, a []Value, _ *ssa.CallCommon) Value {
			p := pv(a)
			switch p.Kind {
			case "":
				return &Iface{}
			case "bool":
				return &Iface{Typ: types.Typ[types.Bool], Val: p.V}
			case "int32":
				return &Iface{Typ: types.Typ[types.Int32], Val: e.tb.Extract(p.V.(*Term), 31, 0)}
			case "int64":
				return &Iface{Typ: types.Typ[types.Int64], Val: p.V}
			case "uint32":
				return &Iface{Typ: types.Typ[types.Uint32], Val: e.tb.Extract(p.V.(*Term), 31, 0)}
			case "uint64":
				return &Iface{Typ: types.Typ[types.Uint64], Val: p.V}
			case "float32":
				return &Iface{Typ: types.Typ[types.Float32], Val: e.tb.F64to32(p.V.(*Term))}
			case "float64":
				return &Iface{Typ: types.Typ[types.Float64], Val: p.V}
			case "string":
				return &Iface{Typ: types.Typ[types.String], Val: p.V}
			case "bytes":
				return &Iface{Typ: types.NewSlice(types.Typ[types.Uint8]), Val: p.V}
			case "enum":
				return &Iface{Typ: e.lookupNamedType(prPkg + "EnumNumber"), Val: p.V}
			}
			return p.V
		})
	}
	meth("Value", "Float", func(e *Exec, a []Value, _ *ssa.CallCommon) Value {
		p := pv(a)
		if p.Kind != "float32" && p.Kind != "float64" {
			e.pvPanic("float", p)
		}
		return p.V
	})
	meth("Value", "Bytes", func(e *Exec, a []Value, _ *ssa.CallCommon) Value {
		p := pv(a)
		if p.Kind != "bytes" {
			e.pvPanic("bytes", p)
		}
		return p.V
	})
	meth("Value", "Enum", func(e *Exec, a []Value, _ *ssa.CallCommon) Value {
		p := pv(a)
		if p.Kind != "enum" {
			e.pvPanic("enum", p)
		}
		return p.V
	})
	for _, k := range []struct{ m, kind string }{{"Message", "message"}, {"List", "list"}, {"Map", "map"}} {
		k := k
		meth("Value", k.m, func(e *Exec, a []Value, _ *ssa.CallCommon) Value {
			p := pv(a)
			if p.Kind != k.kind {
				e.pvPanic(k.kind, p)
			}
			return p.V
		})
	}
	meth("Value", "MapKey", func(e *Exec, a []Value, _ *ssa.CallCommon) Value {
		p := pv(a)
		switch p.Kind {
		case "bool", "int32", "int64", "uint32", "uint64", "string":
			return p
		}
		panic(&goPanic{kind: "explicit", detail: "protoreflect: invalid map key type " + p.Kind})
	})
	meth("MapKey", "Value", func(e *Exec, a []Value, _ *ssa.CallCommon) Value { return pv(a) })
	meth("Value", "Equal", func(e *Exec, a []Value, _ *ssa.CallCommon) Value {
		e.unsupported("protoreflect.Value.Equal")
		return nil
	})
}

// vhPVKind lets harnesses inspect the kind of a protoreflect.Value without panicking.
func registerPValueHarness(e *Exec) {
	e.intrinsics["vh:vhValueKind"] = func(e *Exec, a []Value, _ *ssa.CallCommon) Value {
		return e.constStr(pv(a).Kind)
	}
}

var _ = strings.HasPrefix
