package sym

import (
	"fmt"
	"go/types"
	"strings"

	"golang.org/x/tools/go/ssa"
	"google.golang.org/protobuf/proto"
	"google.golang.org/protobuf/reflect/protodesc"
	"google.golang.org/protobuf/reflect/protoreflect"
	"google.golang.org/protobuf/reflect/protoregistry"
	"google.golang.org/protobuf/types/descriptorpb"

	_ "google.golang.org/protobuf/types/known/anypb"
	_ "google.golang.org/protobuf/types/known/durationpb"
	_ "google.golang.org/protobuf/types/known/emptypb"
	_ "google.golang.org/protobuf/types/known/fieldmaskpb"
	_ "google.golang.org/protobuf/types/known/structpb"
	_ "google.golang.org/protobuf/types/known/timestamppb"
	_ "google.golang.org/protobuf/types/known/wrapperspb"
)

// Descriptor objects are opaque environment values computed natively from the raw
// descriptor bytes embedded in the generated package (file_*_rawDesc).

type descNode struct {
	kind     string // file message field oneof enum enumvalue
	fullName string
	file     *descriptorpb.FileDescriptorProto
	msg      *descriptorpb.DescriptorProto
	field    *descriptorpb.FieldDescriptorProto
	oneof    *descriptorpb.OneofDescriptorProto
	enum     *descriptorpb.EnumDescriptorProto
	enumVal  *descriptorpb.EnumValueDescriptorProto
	parent   *descNode
	index    int
	children []*descNode // for list nodes
}

type DescUniverse struct {
	files map[string]*descriptorpb.FileDescriptorProto
	nodes map[string]*descNode // by kind+":"+fullName
	opq   map[*descNode]*Opaque
}

func newDescUniverse() *DescUniverse {
	return &DescUniverse{files: map[string]*descriptorpb.FileDescriptorProto{}, nodes: map[string]*descNode{}, opq: map[*descNode]*Opaque{}}
}

func qual(pkg, name string) string {
	if pkg == "" {
		return name
	}
	return pkg + "." + name
}

func (u *DescUniverse) addFile(f *descriptorpb.FileDescriptorProto) *descNode {
	if n, ok := u.nodes["file:"+f.GetName()]; ok {
		return n
	}
	u.files[f.GetName()] = f
	fn := &descNode{kind: "file", fullName: f.GetPackage(), file: f}
	u.nodes["file:"+f.GetName()] = fn
	var addMsg func(parent *descNode, prefix string, m *descriptorpb.DescriptorProto, idx int)
	addEnum := func(parent *descNode, prefix string, en *descriptorpb.EnumDescriptorProto, idx int) {
		n := &descNode{kind: "enum", fullName: qual(prefix, en.GetName()), file: f, enum: en, parent: parent, index: idx}
		u.nodes["enum:"+n.fullName] = n
		for i, v := range en.Value {
			vn := &descNode{kind: "enumvalue", fullName: qual(prefix, v.GetName()), file: f, enumVal: v, parent: n, index: i}
			n.children = append(n.children, vn)
		}
	}
	addMsg = func(parent *descNode, prefix string, m *descriptorpb.DescriptorProto, idx int) {
		n := &descNode{kind: "message", fullName: qual(prefix, m.GetName()), file: f, msg: m, parent: parent, index: idx}
		u.nodes["message:"+n.fullName] = n
		for i, fd := range m.Field {
			c := &descNode{kind: "field", fullName: qual(n.fullName, fd.GetName()), file: f, field: fd, parent: n, index: i}
			u.nodes["field:"+c.fullName] = c
			n.children = append(n.children, c)
		}
		for i, od := range m.OneofDecl {
			c := &descNode{kind: "oneof", fullName: qual(n.fullName, od.GetName()), file: f, oneof: od, parent: n, index: i}
			u.nodes["oneof:"+c.fullName] = c
		}
		for i, nm := range m.NestedType {
			addMsg(n, n.fullName, nm, i)
		}
		for i, en := range m.EnumType {
			addEnum(n, n.fullName, en, i)
		}
	}
	for i, m := range f.MessageType {
		addMsg(fn, f.GetPackage(), m, i)
	}
	for i, en := range f.EnumType {
		addEnum(fn, f.GetPackage(), en, i)
	}
	return fn
}

// resolve finds a message/enum by fully-qualified name (leading dot), consulting the
// global registry of the engine process for well-known types.
func (u *DescUniverse) resolve(kind, typeName string) *descNode {
	name := strings.TrimPrefix(typeName, ".")
	if n, ok := u.nodes[kind+":"+name]; ok {
		return n
	}
	d, err := protoregistry.GlobalFiles.FindDescriptorByName(protoreflect.FullName(name))
	if err != nil {
		return nil
	}
	u.addFile(protodesc.ToFileDescriptorProto(d.ParentFile()))
	return u.nodes[kind+":"+name]
}

func (e *Exec) descOpaque(n *descNode) *Iface {
	if n == nil {
		return &Iface{}
	}
	u := e.Desc
	o, ok := u.opq[n]
	if !ok {
		class := map[string]string{"file": "FileDescriptor", "message": "MessageDescriptor", "field": "FieldDescriptor", "oneof": "OneofDescriptor", "enum": "EnumDescriptor", "enumvalue": "EnumValueDescriptor"}[n.kind]
		o = &Opaque{Class: class, Name: n.fullName, Attrs: map[string]Value{"node": n}}
		u.opq[n] = o
	}
	return wrapOpaque(o)
}

type descList struct {
	kind  string // element kind
	items []*descNode
}

func (e *Exec) descListOpaque(class string, items []*descNode) *Iface {
	o := &Opaque{Class: class, Attrs: map[string]Value{"list": &descList{items: items}}}
	return wrapOpaque(o)
}

// RegisterRawDesc parses a serialized FileDescriptorProto and returns the file node.
func (e *Exec) RegisterRawDesc(b []byte) (*descNode, error) {
	f := &descriptorpb.FileDescriptorProto{}
	if err := proto.Unmarshal(b, f); err != nil {
		return nil, err
	}
	return e.Desc.addFile(f), nil
}

func (e *Exec) FileDescriptorValue(n *descNode) Value { return e.descOpaque(n) }

func init() {
	opaqueIfaces["FileDescriptor"] = []string{prPkg + "FileDescriptor"}
	opaqueIfaces["MessageDescriptor"] = []string{prPkg + "MessageDescriptor"}
	opaqueIfaces["FieldDescriptor"] = []string{prPkg + "FieldDescriptor"}
	opaqueIfaces["OneofDescriptor"] = []string{prPkg + "OneofDescriptor"}
	opaqueIfaces["EnumDescriptor"] = []string{prPkg + "EnumDescriptor"}
	opaqueIfaces["EnumValueDescriptor"] = []string{prPkg + "EnumValueDescriptor"}
	opaqueIfaces["MessageDescriptors"] = []string{prPkg + "MessageDescriptors"}
	opaqueIfaces["FieldDescriptors"] = []string{prPkg + "FieldDescriptors"}
	opaqueIfaces["OneofDescriptors"] = []string{prPkg + "OneofDescriptors"}
	opaqueIfaces["EnumDescriptors"] = []string{prPkg + "EnumDescriptors"}
	opaqueIfaces["EnumValueDescriptors"] = []string{prPkg + "EnumValueDescriptors"}
	opaqueIfaces["FieldNumbers"] = []string{prPkg + "FieldNumbers"}
	opaqueIfaces["FieldRanges"] = []string{prPkg + "FieldRanges"}
	opaqueIfaces["Names"] = []string{prPkg + "Names"}

	listHandler := func(e *Exec, o *Opaque, method string, args []Value, call *ssa.CallCommon) (Value, bool) {
		l := o.Attrs["list"].(*descList)
		switch method {
		case "Len":
			return e.c64(int64(len(l.items))), true
		case "Get":
			i := e.argInt(args[0], "descriptor list index")
			if i < 0 || i >= len(l.items) {
				panic(&goPanic{kind: "index", detail: "descriptor list index out of range"})
			}
			return e.descOpaque(l.items[i]), true
		case "ByName":
			name := e.argStr(args[0], "ByName")
			for _, it := range l.items {
				if it.fullName == name || strings.HasSuffix(it.fullName, "."+name) {
					return e.descOpaque(it), true
				}
			}
			return &Iface{}, true
		case "ByNumber":
			num := e.argInt(args[0], "ByNumber")
			for _, it := range l.items {
				if it.kind == "field" && int(it.field.GetNumber()) == num {
					return e.descOpaque(it), true
				}
				if it.kind == "enumvalue" && int(it.enumVal.GetNumber()) == num {
					return e.descOpaque(it), true
				}
			}
			return &Iface{}, true
		case "ByJSONName", "ByTextName":
			name := e.argStr(args[0], method)
			for _, it := range l.items {
				if it.kind == "field" && (it.field.GetJsonName() == name || it.field.GetName() == name) {
					return e.descOpaque(it), true
				}
			}
			return &Iface{}, true
		case "Has":
			return e.tb.False, true
		}
		return nil, false
	}
	for _, c := range []string{"MessageDescriptors", "FieldDescriptors", "OneofDescriptors", "EnumDescriptors", "EnumValueDescriptors", "FieldNumbers", "FieldRanges", "Names"} {
		opaqueHandlers[c] = listHandler
	}

	common := func(e *Exec, n *descNode, method string) (Value, bool) {
		switch method {
		case "FullName":
			return e.constStr(n.fullName), true
		case "Name":
			s := n.fullName
			if i := strings.LastIndex(s, "."); i >= 0 {
				s = s[i+1:]
			}
			return e.constStr(s), true
		case "Index":
			return e.c64(int64(n.index)), true
		case "IsPlaceholder":
			return e.tb.False, true
		case "Parent":
			return e.descOpaque(n.parent), true
		case "ParentFile":
			return e.descOpaque(e.Desc.nodes["file:"+n.file.GetName()]), true
		case "Syntax":
			s := int64(2) // proto2
			if n.file.GetSyntax() == "proto3" {
				s = 3
			}
			return e.tb.Const(8, uint64(s)), true
		}
		return nil, false
	}
	node := func(o *Opaque) *descNode { return o.Attrs["node"].(*descNode) }
	childrenOf := func(e *Exec, parent *descNode, kind string) []*descNode {
		var out []*descNode
		prefix := kind + ":"
		switch kind {
		case "field":
			for _, c := range parent.children {
				if c.kind == "field" {
					out = append(out, c)
				}
			}
			return out
		}
		// messages / enums / oneofs declared directly under parent: look up by construction order
		switch {
		case parent.kind == "file" && kind == "message":
			for _, m := range parent.file.MessageType {
				out = append(out, e.Desc.nodes[prefix+qual(parent.file.GetPackage(), m.GetName())])
			}
		case parent.kind == "file" && kind == "enum":
			for _, m := range parent.file.EnumType {
				out = append(out, e.Desc.nodes[prefix+qual(parent.file.GetPackage(), m.GetName())])
			}
		case parent.kind == "message" && kind == "message":
			for _, m := range parent.msg.NestedType {
				out = append(out, e.Desc.nodes[prefix+qual(parent.fullName, m.GetName())])
			}
		case parent.kind == "message" && kind == "enum":
			for _, m := range parent.msg.EnumType {
				out = append(out, e.Desc.nodes[prefix+qual(parent.fullName, m.GetName())])
			}
		case parent.kind == "message" && kind == "oneof":
			for _, m := range parent.msg.OneofDecl {
				out = append(out, e.Desc.nodes[prefix+qual(parent.fullName, m.GetName())])
			}
		}
		return out
	}
	opaqueHandlers["FileDescriptor"] = func(e *Exec, o *Opaque, method string, args []Value, call *ssa.CallCommon) (Value, bool) {
		n := node(o)
		switch method {
		case "Messages":
			return e.descListOpaque("MessageDescriptors", childrenOf(e, n, "message")), true
		case "Enums":
			return e.descListOpaque("EnumDescriptors", childrenOf(e, n, "enum")), true
		case "Path":
			return e.constStr(n.file.GetName()), true
		case "Package":
			return e.constStr(n.file.GetPackage()), true
		case "FullName":
			return e.constStr(n.file.GetPackage()), true
		}
		return common(e, n, method)
	}
	opaqueHandlers["MessageDescriptor"] = func(e *Exec, o *Opaque, method string, args []Value, call *ssa.CallCommon) (Value, bool) {
		n := node(o)
		switch method {
		case "Fields":
			return e.descListOpaque("FieldDescriptors", childrenOf(e, n, "field")), true
		case "Oneofs":
			return e.descListOpaque("OneofDescriptors", childrenOf(e, n, "oneof")), true
		case "Messages":
			return e.descListOpaque("MessageDescriptors", childrenOf(e, n, "message")), true
		case "Enums":
			return e.descListOpaque("EnumDescriptors", childrenOf(e, n, "enum")), true
		case "IsMapEntry":
			return e.tb.Bool(n.msg.GetOptions().GetMapEntry()), true
		case "RequiredNumbers":
			return e.descListOpaque("FieldNumbers", nil), true
		case "ExtensionRanges", "ReservedRanges":
			return e.descListOpaque("FieldRanges", nil), true
		case "ReservedNames":
			return e.descListOpaque("Names", nil), true
		}
		return common(e, n, method)
	}
	opaqueHandlers["OneofDescriptor"] = func(e *Exec, o *Opaque, method string, args []Value, call *ssa.CallCommon) (Value, bool) {
		n := node(o)
		switch method {
		case "Fields":
			var fs []*descNode
			for _, c := range n.parent.children {
				if c.kind == "field" && c.field.OneofIndex != nil && int(c.field.GetOneofIndex()) == n.index {
					fs = append(fs, c)
				}
			}
			return e.descListOpaque("FieldDescriptors", fs), true
		case "IsSynthetic":
			syn := false
			for _, c := range n.parent.children {
				if c.kind == "field" && c.field.OneofIndex != nil && int(c.field.GetOneofIndex()) == n.index && c.field.GetProto3Optional() {
					syn = true
				}
			}
			return e.tb.Bool(syn), true
		}
		return common(e, n, method)
	}
	opaqueHandlers["EnumDescriptor"] = func(e *Exec, o *Opaque, method string, args []Value, call *ssa.CallCommon) (Value, bool) {
		n := node(o)
		switch method {
		case "Values":
			return e.descListOpaque("EnumValueDescriptors", n.children), true
		}
		return common(e, n, method)
	}
	opaqueHandlers["EnumValueDescriptor"] = func(e *Exec, o *Opaque, method string, args []Value, call *ssa.CallCommon) (Value, bool) {
		n := node(o)
		switch method {
		case "Number":
			return e.tb.Const(32, uint64(n.enumVal.GetNumber())), true
		}
		return common(e, n, method)
	}
	opaqueHandlers["FieldDescriptor"] = func(e *Exec, o *Opaque, method string, args []Value, call *ssa.CallCommon) (Value, bool) {
		n := node(o)
		f := n.field
		isMap := func() bool {
			if f.GetType() != descriptorpb.FieldDescriptorProto_TYPE_MESSAGE || f.GetLabel() != descriptorpb.FieldDescriptorProto_LABEL_REPEATED {
				return false
			}
			m := e.Desc.resolve("message", f.GetTypeName())
			return m != nil && m.msg.GetOptions().GetMapEntry()
		}
		switch method {
		case "Number":
			return e.tb.Const(32, uint64(f.GetNumber())), true
		case "Kind":
			return e.tb.Const(8, uint64(f.GetType())), true
		case "Cardinality":
			return e.tb.Const(8, uint64(f.GetLabel())), true
		case "IsExtension", "IsWeak":
			return e.tb.False, true
		case "IsList":
			return e.tb.Bool(f.GetLabel() == descriptorpb.FieldDescriptorProto_LABEL_REPEATED && !isMap()), true
		case "IsMap":
			return e.tb.Bool(isMap()), true
		case "IsPacked":
			packed := f.GetLabel() == descriptorpb.FieldDescriptorProto_LABEL_REPEATED && n.file.GetSyntax() == "proto3"
			switch f.GetType() {
			case descriptorpb.FieldDescriptorProto_TYPE_STRING, descriptorpb.FieldDescriptorProto_TYPE_BYTES, descriptorpb.FieldDescriptorProto_TYPE_MESSAGE, descriptorpb.FieldDescriptorProto_TYPE_GROUP:
				packed = false
			}
			if f.Options != nil && f.Options.Packed != nil {
				packed = f.Options.GetPacked()
			}
			return e.tb.Bool(packed), true
		case "HasPresence":
			hp := f.OneofIndex != nil || f.GetType() == descriptorpb.FieldDescriptorProto_TYPE_MESSAGE && f.GetLabel() != descriptorpb.FieldDescriptorProto_LABEL_REPEATED
			return e.tb.Bool(hp), true
		case "HasOptionalKeyword":
			return e.tb.Bool(f.GetProto3Optional()), true
		case "HasJSONName":
			return e.tb.Bool(f.JsonName != nil), true
		case "JSONName":
			return e.constStr(f.GetJsonName()), true
		case "TextName":
			return e.constStr(f.GetName()), true
		case "ContainingOneof":
			if f.OneofIndex == nil {
				return &Iface{}, true
			}
			return e.descOpaque(e.Desc.nodes["oneof:"+qual(n.parent.fullName, n.parent.msg.OneofDecl[f.GetOneofIndex()].GetName())]), true
		case "ContainingMessage":
			return e.descOpaque(n.parent), true
		case "Message":
			if f.GetType() != descriptorpb.FieldDescriptorProto_TYPE_MESSAGE && f.GetType() != descriptorpb.FieldDescriptorProto_TYPE_GROUP {
				return &Iface{}, true
			}
			return e.descOpaque(e.Desc.resolve("message", f.GetTypeName())), true
		case "Enum":
			if f.GetType() != descriptorpb.FieldDescriptorProto_TYPE_ENUM {
				return &Iface{}, true
			}
			return e.descOpaque(e.Desc.resolve("enum", f.GetTypeName())), true
		case "MapKey", "MapValue":
			if !isMap() {
				return &Iface{}, true
			}
			m := e.Desc.resolve("message", f.GetTypeName())
			want := int32(1)
			if method == "MapValue" {
				want = 2
			}
			for _, c := range m.children {
				if c.kind == "field" && c.field.GetNumber() == want {
					return e.descOpaque(c), true
				}
			}
			return &Iface{}, true
		case "Default":
			return &PValue{}, true
		case "DefaultEnumValue":
			return &Iface{}, true
		case "HasDefault":
			return e.tb.False, true
		}
		return common(e, n, method)
	}
}

// rawDescBytes extracts the concrete bytes of a []byte global after package init.
func (e *Exec) ConcreteBytesOfGlobal(g *ssa.Global) ([]byte, error) {
	o, ok := e.globals[g]
	if !ok {
		return nil, fmt.Errorf("global %s not initialised", g.Name())
	}
	sl, ok := o.Val.(*Slice)
	if !ok || sl.Obj == nil {
		return nil, fmt.Errorf("global %s is not a byte slice", g.Name())
	}
	n := int(e.concretize(sl.Len, "rawDesc length"))
	out := make([]byte, n)
	// collapse the store chain once
	vals := map[uint64]byte{}
	var walk func(a ArrExpr) error
	walk = func(a ArrExpr) error {
		for a != nil {
			switch x := a.(type) {
			case *arrStore:
				if !x.idx.IsConst() || !x.val.IsConst() {
					return fmt.Errorf("non-constant byte in %s", g.Name())
				}
				if _, seen := vals[x.idx.Val]; !seen {
					vals[x.idx.Val] = byte(x.val.Val)
				}
				a = x.base
			case *arrConst:
				for i := 0; i < len(x.data); i++ {
					if _, seen := vals[uint64(i)]; !seen {
						vals[uint64(i)] = x.data[i]
					}
				}
				a = nil
			default:
				return fmt.Errorf("unexpected array expression %T in %s", a, g.Name())
			}
		}
		return nil
	}
	if err := walk(sl.Obj.Bytes); err != nil {
		return nil, err
	}
	off := sl.Off.Val
	for i := 0; i < n; i++ {
		out[i] = vals[off+uint64(i)]
	}
	return out, nil
}

// SetGlobal assigns a value to a package-level variable during package init.
func (e *Exec) SetGlobal(g *ssa.Global, v Value) {
	e.globalObj(g).Val = v
}

var _ = types.Typ
