package sym

import (
	"encoding/hex"
	"fmt"
	"time"
	"go/constant"
	"go/token"
	"go/types"
	"math"
	"os"
	"strings"

	"golang.org/x/tools/go/ssa"
)

// ---------- configuration / results ----------

type Config struct {
	MaxLoop     int // back-edge visits per frame per block
	MaxSteps    int // instructions per path
	MaxPaths    int
	MaxDepth    int // call depth
	Debug       bool
	Trace       bool
	RepoPrefix  string // module path of the code under test
	MapOrderAll bool   // range over maps explores all orders
	InitFuncs   func(pkgPath string) bool // run init#N functions of these packages too
	MaxHarnessSeconds int // wall-clock budget per harness (0 = none)
	NoSummaries bool                      // run the real runtime.Sov/Soz instead of their verified summaries
	CrossCmd    string                    // independent solver re-deciding unsat one-shot queries (thorough tier)
}

type Violation struct {
	Harness  string
	Qualified string
	AssertID string
	Kind     string // "assert", "panic"
	Detail   string
	Model    map[string]string // input name -> value (decimal or hex:..)
	Path     int
}

type HarnessResult struct {
	Name         string
	Qualified    string
	Paths        int
	PathsPruned  int
	Obligations  int // assertion instances checked with the solver or folded
	Discharged   int
	Trivial      int // obligations whose condition folded to true syntactically
	ByRange      int // branch conditions decided by interval reasoning (no solver query)
	ByModel      int // branch sides taken because the model at hand witnesses them (no solver query)
	Violations   []*Violation
	// NonTermWitness: inputs of the first path that exceeded a loop bound. Not a violation
	// by itself (the bound may simply be too small): the driver replays it natively and
	// reports non-termination only if the real code does not come back.
	NonTermWitness *Violation
	Inconclusive []string
	Reached      map[string]int // assert id -> number of paths reaching it
	Outcomes     map[string]int
	Queries      int
	SolverTime   float64
	Steps        int
	Funcs        map[string]bool
	Samples      []string
	MaxTrail     int
	Records      []string
	CrossChecked int
	CrossUnknown int
	Notes        []string
}

// ---------- control signals ----------

type pathEnd struct {
	kind   string // "pruned","violation","unsupported","unwind","done","budget"
	detail string
}

type goPanic struct {
	val       Value
	kind      string // "explicit","index","nil","slice","typeassert","divide","negshift","makeslice","map-nil"
	detail    string
	recovered bool
}

// ---------- DFS trail ----------

const (
	tBranch = iota
	tChoice
	tAssume
	tAssert
)

type trailEntry struct {
	kind        int
	cond        *Term
	chosen      int // tBranch: 0 = cond true, 1 = cond false ; tChoice: index
	n           int
	other       int // 0 unexplored, 1 infeasible, 2 explored
	depthBefore int
}

// ---------- executor ----------

type inputRec struct {
	Name string
	Kind string // "bv","bytes","choice","bool"
	T    *Term  // variable (bv / len)
	Arr  string // UF name for bytes
	W    int
}

type writeRec struct {
	obj  *Obj
	site string
}

type allocRec struct {
	site  string
	bytes *Term
}

type frame struct {
	fn      *ssa.Function
	env     map[ssa.Value]Value
	visits  map[*ssa.BasicBlock]int
	defers  []func()
	results Value
	prev    *ssa.BasicBlock
}

type Exec struct {
	Prog   *ssa.Program
	tb     *Table
	solver *Solver
	Cfg    Config

	trail []*trailEntry
	pos   int

	// per-path state
	nextObj   int
	epoch     int
	globals   map[*ssa.Global]*Obj
	symCount  map[string]int
	inputs    []inputRec
	writes    []writeRec
	allocs    []allocRec
	track     bool
	steps     int
	depth     int
	curPanic  *goPanic
	loopBound int
	mapAll    bool
	notes     []string
	stack     []*ssa.Function
	opaqueSeq int
	memo      map[string]Value
	known     map[*Term]bool
	lenBounds map[*Term]int
	model     *Model // a model of the current path condition (nil if none is at hand)
	modelMemo map[int]uint64
	stubNested bool
	noSummaries bool
	snaps     []ArrExpr
	pnotes    []string
	skipIntrinsic *ssa.Function
	ranges    map[*Term]rng
	rmemo     map[*Term]rng

	// per-exec (persist across paths)
	pristine   map[*ssa.Global]*Obj
	initDone   map[*ssa.Package]bool
	initMode   bool
	intrinsics map[string]func(e *Exec, args []Value, call *ssa.CallCommon) Value
	res        *HarnessResult
	Hooks      Hooks
	descCache  map[string]*Opaque
	Desc       *DescUniverse
	UseModels  bool
	modelVars  int
	tRefresh, tEval time.Duration
	nRefresh int
	funcsCache map[*ssa.Function]bool
	byName     map[string]*ssa.Function
}

// Hooks lets the driver plug environment models in.
type Hooks struct {
	// PackageInit is called after the var initialisers of pkg ran in init mode.
	PackageInit func(e *Exec, pkg *ssa.Package)
}

func NewExec(prog *ssa.Program, solverKind string, timeoutMs int, cfg Config) (*Exec, error) {
	tb := NewTable()
	s, err := NewSolver(solverKind, tb, timeoutMs)
	if err != nil {
		return nil, err
	}
	s.CrossCmd = cfg.CrossCmd
	if cfg.MaxLoop == 0 {
		cfg.MaxLoop = 40
	}
	if cfg.MaxSteps == 0 {
		cfg.MaxSteps = 3000000
	}
	if cfg.MaxPaths == 0 {
		cfg.MaxPaths = 20000
	}
	if cfg.MaxDepth == 0 {
		cfg.MaxDepth = 120
	}
	e := &Exec{Prog: prog, tb: tb, solver: s, Cfg: cfg,
		pristine: map[*ssa.Global]*Obj{}, initDone: map[*ssa.Package]bool{},
		intrinsics: map[string]func(e *Exec, args []Value, call *ssa.CallCommon) Value{},
		descCache:  map[string]*Opaque{}, Desc: newDescUniverse()}
	registerIntrinsics(e)
	return e, nil
}

func (e *Exec) Close()        { e.solver.Close() }
func (e *Exec) Table() *Table { return e.tb }

func (e *Exec) unsupported(format string, a ...interface{}) {
	msg := fmt.Sprintf(format, a...)
	if len(e.stack) > 0 {
		msg += " [in " + e.stack[len(e.stack)-1].String() + "]"
	}
	panic(&pathEnd{kind: "unsupported", detail: msg})
}

func (e *Exec) note(format string, a ...interface{}) {
	e.notes = append(e.notes, fmt.Sprintf(format, a...))
	e.pnotes = append(e.pnotes, fmt.Sprintf(format, a...))
}

func (e *Exec) pathNotes() string {
	if len(e.pnotes) == 0 {
		return ""
	}
	n := e.pnotes
	if len(n) > 6 {
		n = n[len(n)-6:]
	}
	return " [" + strings.Join(n, "; ") + "]"
}

// RunHarness explores all paths of fn (a niladic function).
func (e *Exec) RunHarness(fn *ssa.Function) *HarnessResult {
	res := &HarnessResult{Name: fn.Name(), Reached: map[string]int{}, Outcomes: map[string]int{}, Funcs: map[string]bool{}}
	e.res = res
	e.trail = nil
	e.model = nil
	hstart := time.Now()
	q0, t0 := e.solver.Queries, e.solver.Time
	e.solver.PopTo(0)
	for {
		e.resetPath()
		out := e.runPath(fn)
		res.Paths++
		res.Outcomes[out.kind]++
		if len(e.trail) > res.MaxTrail {
			res.MaxTrail = len(e.trail)
		}
		switch out.kind {
		case "pruned":
			res.PathsPruned++
		case "unsupported", "unwind", "budget":
			res.Inconclusive = append(res.Inconclusive, out.kind+": "+out.detail)
			if out.kind == "unwind" && res.NonTermWitness == nil && strings.HasPrefix(out.detail, "loop bound") {
				if e.solver.Check() == Sat {
					res.NonTermWitness = &Violation{Harness: res.Name, AssertID: "terminates", Kind: "unwind", Detail: out.detail, Model: e.extractModel(), Path: res.Paths}
				}
			}
		}
		res.Steps += e.steps
		if e.Cfg.Debug {
			fmt.Fprintf(os.Stderr, "  path %d: %s %s (trail %d, steps %d) q=%d hard=%d t=%.1fs terms=%d refresh=%d/%.1fs eval=%.1fs\n", res.Paths, out.kind, out.detail, len(e.trail), e.steps, e.solver.Queries, e.solver.HardQueries, e.solver.Time.Seconds(), e.tb.NumTerms(), e.nRefresh, e.tRefresh.Seconds(), e.tEval.Seconds())
		}
		if len(res.Inconclusive) > 20 {
			break
		}
		if res.NonTermWitness != nil {
			// the harness cannot end OK any more, and paths that run into the loop bound are
			// the most expensive ones: stop here and let the driver replay the witness
			res.Inconclusive = append(res.Inconclusive, fmt.Sprintf("exploration stopped at the first path past the loop bound (after %d paths)", res.Paths))
			break
		}
		if e.Cfg.MaxHarnessSeconds > 0 && time.Since(hstart).Seconds() > float64(e.Cfg.MaxHarnessSeconds) {
			res.Inconclusive = append(res.Inconclusive, fmt.Sprintf("wall-clock budget of %d s per harness exhausted after %d paths", e.Cfg.MaxHarnessSeconds, res.Paths))
			break
		}
		if res.Paths >= e.Cfg.MaxPaths {
			res.Inconclusive = append(res.Inconclusive, fmt.Sprintf("path budget %d exhausted", e.Cfg.MaxPaths))
			break
		}
		if !e.backtrack() {
			break
		}
	}
	e.solver.PopTo(0)
	res.CrossChecked, res.CrossUnknown = e.solver.CrossChecked, e.solver.CrossUnknown
	res.Queries = e.solver.Queries - q0
	res.SolverTime = (e.solver.Time - t0).Seconds()
	if len(e.solver.Errors) > 0 {
		res.Inconclusive = append(res.Inconclusive, "solver errors: "+strings.Join(e.solver.Errors[:min(3, len(e.solver.Errors))], "; "))
		e.solver.Errors = nil
	}
	for _, n := range e.notes {
		res.Notes = append(res.Notes, n)
	}
	return res
}

func (e *Exec) resetPath() {
	e.pos = 0
	e.nextObj = 0
	e.epoch = 0
	e.globals = map[*ssa.Global]*Obj{}
	e.symCount = map[string]int{}
	e.inputs = nil
	e.writes = nil
	e.allocs = nil
	e.track = false
	e.steps = 0
	e.depth = 0
	e.curPanic = nil
	e.loopBound = e.Cfg.MaxLoop
	e.mapAll = e.Cfg.MapOrderAll
	e.stack = nil
	e.opaqueSeq = 0
	e.memo = map[string]Value{}
	e.known = map[*Term]bool{}
	e.lenBounds = map[*Term]int{}
	e.stubNested = false
	e.noSummaries = e.Cfg.NoSummaries
	e.snaps = nil
	e.pnotes = nil
	e.skipIntrinsic = nil
	e.ranges = map[*Term]rng{}
	e.rmemo = map[*Term]rng{}
}

func (e *Exec) runPath(fn *ssa.Function) (out *pathEnd) {
	defer func() {
		if r := recover(); r != nil {
			switch r := r.(type) {
			case *pathEnd:
				out = r
			case *goPanic:
				// uncaught Go panic reaching the top of the harness
				out = e.reportPanic(r)
			default:
				panic(r)
			}
		}
	}()
	e.call(fn, nil, nil)
	return &pathEnd{kind: "done"}
}

func (e *Exec) reportPanic(p *goPanic) *pathEnd {
	detail := p.kind + ": " + p.detail
	v := &Violation{Harness: e.res.Name, AssertID: "no-panic", Kind: "panic", Detail: detail + e.pathNotes(), Path: e.res.Paths}
	switch e.solver.Check() {
	case Sat:
		v.Model = e.extractModel()
	case Unsat:
		return &pathEnd{kind: "pruned", detail: "panic on an infeasible path"}
	default:
		v.Model = map[string]string{"_error": "path condition not confirmed satisfiable"}
	}
	e.res.Obligations++
	e.res.Violations = append(e.res.Violations, v)
	return &pathEnd{kind: "violation", detail: "uncaught panic " + detail}
}

func (e *Exec) backtrack() bool {
	for len(e.trail) > 0 {
		te := e.trail[len(e.trail)-1]
		switch te.kind {
		case tChoice:
			if te.chosen+1 < te.n {
				e.solver.PopTo(te.depthBefore)
				te.chosen++
				return true
			}
		case tBranch:
			if te.other == 0 {
				e.solver.PopTo(te.depthBefore)
				lit := te.cond
				if te.chosen == 0 {
					lit = e.tb.Not(lit)
				}
				e.solver.Push()
				e.solver.Assert(lit)
				r := e.solver.Check()
				if r == Unsat {
					e.solver.Pop()
					te.other = 1
				} else {
					te.chosen ^= 1
					te.other = 2
					if r == Sat {
						e.refreshModel()
					} else {
						e.model = nil
					}
					return true
				}
			}
		}
		e.trail = e.trail[:len(e.trail)-1]
	}
	return false
}

// branch decides a symbolic condition; returns the side taken on this path.
// If likely is set the false side is probed first (cheap when cond is implied).
func (e *Exec) branch(cond *Term, likely bool) bool {
	if cond.IsConst() {
		return cond.IsTrue()
	}
	if e.initMode {
		e.unsupported("symbolic branch in init mode")
	}
	if v, ok := e.known[cond]; ok {
		return v
	}
	if v, ok := e.decideByRange(cond); ok {
		e.res.ByRange++
		return v
	}
	if likely && os.Getenv("SYMGO_DEBUGRANGE") != "" && e.pos >= len(e.trail) {
		fmt.Fprintf(os.Stderr, "RANGE-UNDECIDED %s\n", e.explainRange(cond))
	}
	if e.pos < len(e.trail) {
		te := e.trail[e.pos]
		if te.kind != tBranch || te.cond != cond {
			panic(fmt.Sprintf("nondeterministic replay at trail %d: kind %d cond %s vs %s", e.pos, te.kind, e.tb.Show(te.cond), e.tb.Show(cond)))
		}
		e.pos++
		e.learn(cond, te.chosen == 0)
		return te.chosen == 0
	}
	te := &trailEntry{kind: tBranch, cond: cond, depthBefore: e.solver.Depth()}
	if v, ok := e.evalUnderModel(cond); ok && !(likely && v) {
		// the model at hand satisfies the path condition and decides cond: that side is
		// feasible without asking; the other side is examined when the search backtracks
		lit := cond
		if !v {
			lit = e.tb.Not(cond)
			te.chosen = 1
		}
		e.solver.Push()
		e.solver.Assert(lit)
		e.res.ByModel++
		e.trail = append(e.trail, te)
		e.pos++
		e.learn(cond, v)
		return v
	}
	if likely {
		e.solver.Push()
		e.solver.Assert(e.tb.Not(cond))
		r := e.solver.Check()
		if r == Unsat {
			e.solver.Pop()
			te.chosen = 0
			te.other = 1
		} else {
			te.chosen = 1
			te.other = 0
			if r == Sat {
				e.refreshModel()
			} else {
				e.model = nil
			}
		}
	} else {
		e.solver.Push()
		e.solver.Assert(cond)
		r := e.solver.Check()
		if r == Unsat {
			e.solver.Pop()
			te.chosen = 1
			te.other = 1
		} else {
			te.chosen = 0
			te.other = 0
			if r == Sat {
				e.refreshModel()
			} else {
				e.model = nil
			}
		}
	}
	e.trail = append(e.trail, te)
	e.pos++
	e.learn(cond, te.chosen == 0)
	return te.chosen == 0
}

// refreshModel must be called right after a sat answer of the incremental solver: it
// fetches values for every input symbol and every byte-array read created so far.
func (e *Exec) refreshModel() {
	t0 := time.Now()
	defer func() {
		e.tRefresh += time.Since(t0)
		e.nRefresh++
		if e.nRefresh >= 3 && e.tRefresh > time.Duration(e.nRefresh)*150*time.Millisecond {
			// fetching models costs more than the queries they save on this harness
			e.UseModels = false
			e.model = nil
		}
	}()
	e.model = nil
	if !e.UseModels || e.solver.lastHard {
		return
	}
	var ts []*Term
	ts = append(ts, e.tb.Vars...)
	nv := len(ts)
	type sel struct {
		name string
	}
	var sels []*Term
	for _, list := range e.tb.Selects {
		sels = append(sels, list...)
	}
	if len(sels) > 0 { // get-value over array reads costs more than the queries it saves (measured: 0.7 s per refresh)
		return
	}
	for _, st := range sels {
		ts = append(ts, st.Args[0], st)
	}
	vals, err := e.solver.GetValues(ts)
	if err != nil {
		return
	}
	m := &Model{Vars: map[string]uint64{}, UFs: map[string]map[uint64]uint8{}}
	for i := 0; i < nv; i++ {
		m.Vars[fmt.Sprintf("%s@%d", ts[i].Name, ts[i].W)] = vals[i]
	}
	for i, st := range sels {
		tab := m.UFs[st.Name]
		if tab == nil {
			tab = map[uint64]uint8{}
			m.UFs[st.Name] = tab
		}
		tab[vals[nv+2*i]] = uint8(vals[nv+2*i+1])
	}
	e.model = m
	e.modelMemo = map[int]uint64{}
	e.modelVars = len(e.tb.Vars)
}

// evalUnderModel evaluates a condition in the model at hand; ok is false when the model
// does not determine it (symbols or array reads created after the model was fetched).
func (e *Exec) evalUnderModel(cond *Term) (val bool, ok bool) {
	if e.model == nil {
		return false, false
	}
	defer func() {
		if r := recover(); r != nil {
			if _, isMiss := r.(modelMiss); isMiss {
				val, ok = false, false
				return
			}
			panic(r)
		}
	}()
	t0 := time.Now()
	v := e.tb.EvalStrict(cond, e.model, e.modelMemo)
	e.tEval += time.Since(t0)
	return v != 0, true
}

// learn records a literal decided on this path so that re-evaluating the same
// condition (e.g. size computed again inside marshal) costs no solver query.
func (e *Exec) learn(cond *Term, v bool) {
	e.known[cond] = v
	e.known[e.tb.Not(cond)] = !v
	e.learnRange(cond, v)
}

func (e *Exec) choice(n int) int {
	if n <= 1 {
		return 0
	}
	if e.pos < len(e.trail) {
		te := e.trail[e.pos]
		if te.kind != tChoice || te.n != n {
			panic("nondeterministic replay (choice)")
		}
		e.pos++
		return te.chosen
	}
	te := &trailEntry{kind: tChoice, n: n, depthBefore: e.solver.Depth()}
	e.trail = append(e.trail, te)
	e.pos++
	return 0
}

func (e *Exec) assume(cond *Term) {
	if cond.IsTrue() {
		return
	}
	if cond.IsFalse() {
		panic(&pathEnd{kind: "pruned"})
	}
	if v, ok := e.known[cond]; ok {
		if v {
			return
		}
		panic(&pathEnd{kind: "pruned"})
	}
	if v, ok := e.decideByRange(cond); ok {
		if v {
			return
		}
		panic(&pathEnd{kind: "pruned"})
	}
	if e.pos < len(e.trail) {
		te := e.trail[e.pos]
		if te.kind != tAssume || te.cond != cond {
			panic("nondeterministic replay (assume)")
		}
		e.pos++
		e.learn(cond, true)
		return
	}
	te := &trailEntry{kind: tAssume, cond: cond, depthBefore: e.solver.Depth(), other: 1}
	e.solver.Push()
	e.solver.Assert(cond)
	if v, ok := e.evalUnderModel(cond); ok && v {
		e.res.ByModel++
	} else {
		r := e.solver.Check()
		if r == Unsat {
			e.solver.Pop()
			panic(&pathEnd{kind: "pruned"})
		}
		if r == Sat {
			e.refreshModel()
		} else {
			e.model = nil
		}
	}
	e.trail = append(e.trail, te)
	e.pos++
	e.learn(cond, true)
}

// assertProp checks a property assertion under the current path condition.
func (e *Exec) assertProp(id string, cond *Term) {
	e.res.Reached[id]++
	if cond.IsTrue() {
		e.res.Obligations++
		e.res.Discharged++
		// trivial only if nothing symbolic led here: an assertion that folds to true on a
		// path whose condition the solver had to decide is still a solver-decided obligation
		symbolic := false
		for _, te := range e.trail[:e.pos] {
			if te.kind == tBranch || te.kind == tAssume {
				symbolic = true
				break
			}
		}
		if !symbolic {
			e.res.Trivial++
		}
		return
	}
	if e.pos < len(e.trail) {
		te := e.trail[e.pos]
		if te.kind != tAssert || te.cond != cond {
			panic("nondeterministic replay (assert)")
		}
		e.pos++
		return
	}
	e.res.Obligations++
	if cond.IsFalse() {
		e.violation(id, cond)
	}
	e.solver.Push()
	e.solver.Assert(e.tb.Not(cond))
	r := e.solver.CheckAssert(id)
	switch r {
	case Unsat:
		e.solver.Pop()
		e.res.Discharged++
		if len(e.res.Samples) < 6 {
			e.res.Samples = append(e.res.Samples, fmt.Sprintf("%s/%s path=%d pc=%d literals: unsat", e.res.Name, id, e.res.Paths, len(e.trail)))
		}
	case Sat:
		v := &Violation{Harness: e.res.Name, AssertID: id, Kind: "assert", Detail: e.tb.Show(cond) + e.pathNotes(), Path: e.res.Paths}
		v.Model = e.extractModel()
		e.addWrittenGlobals(v.Model)
		e.solver.Pop()
		e.res.Violations = append(e.res.Violations, v)
		panic(&pathEnd{kind: "violation", detail: id})
	default:
		e.solver.Pop()
		e.res.Inconclusive = append(e.res.Inconclusive, "solver unknown on assert "+id)
	}
	te := &trailEntry{kind: tAssert, cond: cond, depthBefore: e.solver.Depth(), other: 1}
	e.trail = append(e.trail, te)
	e.pos++
}

func (e *Exec) violation(id string, cond *Term) {
	v := &Violation{Harness: e.res.Name, AssertID: id, Kind: "assert", Detail: e.tb.Show(cond) + e.pathNotes(), Path: e.res.Paths}
	// need a model of the path condition itself
	r := e.solver.Check()
	if r == Sat {
		v.Model = e.extractModel()
	} else {
		v.Model = map[string]string{}
	}
	e.addWrittenGlobals(v.Model)
	e.res.Violations = append(e.res.Violations, v)
	panic(&pathEnd{kind: "violation", detail: id})
}

// extractModel must be called right after a sat check.
func (e *Exec) extractModel() map[string]string {
	m := map[string]string{}
	var ts []*Term
	var names []string
	for _, in := range e.inputs {
		switch in.Kind {
		case "bv", "bool":
			ts = append(ts, in.T)
			names = append(names, in.Name)
		case "bytes":
			ts = append(ts, in.T)
			names = append(names, in.Name+".len")
		}
	}
	vals, err := e.solver.GetValues(ts)
	if err != nil {
		m["_error"] = err.Error()
		return m
	}
	for i, n := range names {
		m[n] = fmt.Sprintf("%d", vals[i])
	}
	for _, in := range e.inputs {
		if in.Kind != "bytes" {
			continue
		}
		var ln uint64
		fmt.Sscanf(m[in.Name+".len"], "%d", &ln)
		if ln > 1<<22 {
			m[in.Name] = "toolong"
			continue
		}
		buf := make([]byte, ln)
		sels := e.tb.Selects[in.Arr]
		var its []*Term
		for _, st := range sels {
			if e.solver.InCone(st) {
				its = append(its, st.Args[0], st)
			}
		}
		bv, err := e.solver.GetValues(its)
		if err != nil {
			m["_error"] = err.Error()
			continue
		}
		for i := 0; i+1 < len(bv); i += 2 {
			if bv[i] < ln {
				buf[bv[i]] = byte(bv[i+1])
			}
		}
		m[in.Name] = "hex:" + hex.EncodeToString(buf)
	}
	// choices
	k := 0
	for _, te := range e.trail {
		if te.kind == tChoice {
			m[fmt.Sprintf("_choice%d", k)] = fmt.Sprintf("%d", te.chosen)
			k++
		}
	}
	for _, in := range e.inputs {
		if in.Kind == "choice" {
			m[in.Name] = fmt.Sprintf("%d", in.W)
		}
	}
	return m
}

// check is an implicit safety check: if cond can be false the path panics.
func (e *Exec) check(cond *Term, kind, detail string) {
	if !e.branch(cond, true) {
		panic(&goPanic{kind: kind, detail: detail})
	}
}

// concretize forks on the possible values of t.
func (e *Exec) concretize(t *Term, what string) uint64 {
	if t.IsConst() {
		return t.Val
	}
	// enumerate small candidate values
	for v := uint64(0); v < 16; v++ {
		if e.branch(e.tb.Eq(t, e.tb.Const(t.W, v)), false) {
			return v
		}
	}
	e.unsupported("cannot concretize %s (%s)", what, e.tb.Show(t))
	return 0
}

// ---------- function calls ----------

func (e *Exec) callNoIntrinsic(fn *ssa.Function, args []Value) Value {
	e.skipIntrinsic = fn
	return e.call(fn, args, nil)
}

func (e *Exec) call(fn *ssa.Function, args []Value, free []Value) Value {
	if e.res != nil {
		if fn.Pkg != nil || fn.Origin() != nil {
			e.res.Funcs[fn.String()] = true
		}
	}
	if e.skipIntrinsic == fn {
		e.skipIntrinsic = nil
	} else if in := e.lookupIntrinsic(fn); in != nil {
		return in(e, args, nil)
	}
	if fn.Blocks == nil {
		e.unsupported("call to function without body: %s", fn.String())
	}
	e.depth++
	if e.depth > e.Cfg.MaxDepth {
		panic(&pathEnd{kind: "unwind", detail: "call depth exceeded at " + fn.String()})
	}
	e.stack = append(e.stack, fn)
	fr := &frame{fn: fn, env: make(map[ssa.Value]Value, 32), visits: map[*ssa.BasicBlock]int{}}
	for i, p := range fn.Params {
		fr.env[p] = args[i]
	}
	for i, fv := range fn.FreeVars {
		fr.env[fv] = free[i]
	}
	var ret Value
	func() {
		defer func() {
			if r := recover(); r != nil {
				gp, ok := r.(*goPanic)
				if !ok || len(fr.defers) == 0 {
					panic(r)
				}
				// run deferred calls while panicking
				saved := e.curPanic
				e.curPanic = gp
				for i := len(fr.defers) - 1; i >= 0; i-- {
					d := fr.defers[i]
					fr.defers = fr.defers[:i]
					d()
				}
				e.curPanic = saved
				if !gp.recovered {
					panic(gp)
				}
				if fn.Recover != nil {
					ret = e.runBlocks(fr, fn.Recover)
				} else {
					ret = e.zeroResults(fn)
				}
			}
		}()
		ret = e.runBlocks(fr, fn.Blocks[0])
	}()
	e.stack = e.stack[:len(e.stack)-1]
	e.depth--
	return ret
}

func (e *Exec) zeroResults(fn *ssa.Function) Value {
	res := fn.Signature.Results()
	switch res.Len() {
	case 0:
		return nil
	case 1:
		return e.zero(res.At(0).Type())
	}
	return e.zero(res)
}

func stripTypeArgs(s string) string {
	if !strings.Contains(s, "[") {
		return s
	}
	var sb strings.Builder
	depth := 0
	for i := 0; i < len(s); i++ {
		switch s[i] {
		case '[':
			depth++
		case ']':
			depth--
		default:
			if depth == 0 {
				sb.WriteByte(s[i])
			}
		}
	}
	return sb.String()
}

func (e *Exec) lookupIntrinsic(fn *ssa.Function) func(e *Exec, args []Value, call *ssa.CallCommon) Value {
	name := fn.String()
	if in, ok := e.intrinsics[name]; ok {
		return in
	}
	if strings.Contains(name, "[") {
		if in, ok := e.intrinsics[stripTypeArgs(name)]; ok {
			return in
		}
	}
	if o := fn.Origin(); o != nil {
		if in, ok := e.intrinsics[o.String()]; ok {
			return in
		}
	}
	// protoc-gen-go's descriptor/type registration is reflection+unsafe: skipped; the
	// descriptor globals are provided by the package-init hook instead
	if n := fn.Name(); strings.HasPrefix(n, "file_") && strings.HasSuffix(n, "_init") && fn.Signature.Params().Len() == 0 && fn.Signature.Recv() == nil {
		return func(e *Exec, args []Value, call *ssa.CallCommon) Value { return nil }
	}
	// harness intrinsics are matched by bare name prefix
	if strings.HasPrefix(fn.Name(), "vh") && fn.Pkg != nil {
		if in, ok := e.intrinsics["vh:"+fn.Name()]; ok {
			return in
		}
		if o := fn.Origin(); o != nil {
			if in, ok := e.intrinsics["vh:"+o.Name()]; ok {
				return in
			}
		}
	}
	return nil
}

func (e *Exec) runBlocks(fr *frame, b *ssa.BasicBlock) Value {
	for {
		fr.visits[b]++
		if fr.visits[b] > e.loopBound+1 {
			panic(&pathEnd{kind: "unwind", detail: fmt.Sprintf("loop bound %d exceeded in %s block %d", e.loopBound, fr.fn.String(), b.Index)})
		}
		var next *ssa.BasicBlock
		// phis first (parallel assignment)
		i := 0
		if fr.prev != nil {
			var pidx = -1
			for k, p := range b.Preds {
				if p == fr.prev {
					pidx = k
					break
				}
			}
			var vals []Value
			for ; i < len(b.Instrs); i++ {
				phi, ok := b.Instrs[i].(*ssa.Phi)
				if !ok {
					break
				}
				vals = append(vals, e.eval(fr, phi.Edges[pidx]))
			}
			for k, v := range vals {
				fr.env[b.Instrs[k].(*ssa.Phi)] = v
			}
		}
		for ; i < len(b.Instrs); i++ {
			e.steps++
			if e.steps > e.Cfg.MaxSteps {
				panic(&pathEnd{kind: "budget", detail: "step budget exhausted"})
			}
			instr := b.Instrs[i]
			if e.Cfg.Trace {
				fmt.Fprintf(os.Stderr, "    %s: %s\n", fr.fn.Name(), instr)
			}
			switch in := instr.(type) {
			case *ssa.If:
				c := e.eval(fr, in.Cond).(*Term)
				if e.branch(c, false) {
					next = b.Succs[0]
				} else {
					next = b.Succs[1]
				}
			case *ssa.Jump:
				next = b.Succs[0]
			case *ssa.Return:
				switch len(in.Results) {
				case 0:
					return nil
				case 1:
					return e.eval(fr, in.Results[0])
				default:
					t := make(Tuple, len(in.Results))
					for k, r := range in.Results {
						t[k] = e.eval(fr, r)
					}
					return t
				}
			case *ssa.Panic:
				v := e.eval(fr, in.X)
				panic(&goPanic{val: v, kind: "explicit", detail: e.describe(v) + " at " + e.pos2(in.Pos())})
			default:
				e.exec(fr, instr)
			}
		}
		if next == nil {
			e.unsupported("block without terminator")
		}
		fr.prev = b
		b = next
	}
}

func (e *Exec) pos2(p token.Pos) string {
	if !p.IsValid() {
		return "?"
	}
	pp := e.Prog.Fset.Position(p)
	return fmt.Sprintf("%s:%d", shortFile(pp.Filename), pp.Line)
}

func shortFile(f string) string {
	if i := strings.LastIndex(f, "/"); i >= 0 {
		if j := strings.LastIndex(f[:i], "/"); j >= 0 {
			return f[j+1:]
		}
	}
	return f
}

func (e *Exec) describe(v Value) string {
	switch v := v.(type) {
	case *Iface:
		if v.Typ == nil {
			return "nil"
		}
		return e.describe(v.Val)
	case *Str:
		if s, ok := e.concreteStr(v); ok {
			return fmt.Sprintf("%q", s)
		}
		return "<string>"
	case *Term:
		return e.tb.Show(v)
	case *Opaque:
		return "<" + v.Class + " " + v.Name + ">"
	}
	return fmt.Sprintf("<%T>", v)
}

// ---------- operand evaluation ----------

func (e *Exec) eval(fr *frame, v ssa.Value) Value {
	switch v := v.(type) {
	case *ssa.Const:
		return e.constVal(v)
	case *ssa.Function:
		return &Closure{Fn: v}
	case *ssa.Global:
		return &Ptr{Obj: e.globalObj(v)}
	case *ssa.Builtin:
		return &Closure{Name: "builtin:" + v.Name()}
	}
	r, ok := fr.env[v]
	if !ok {
		e.unsupported("value %s (%T) not in environment", v.Name(), v)
	}
	return r
}

func (e *Exec) constVal(c *ssa.Const) Value {
	t := c.Type()
	if c.Value == nil {
		return e.zero(t)
	}
	switch u := t.Underlying().(type) {
	case *types.Basic:
		switch {
		case u.Info()&types.IsBoolean != 0:
			return e.tb.Bool(constant.BoolVal(c.Value))
		case u.Info()&types.IsString != 0:
			return e.constStr(constant.StringVal(c.Value))
		case u.Info()&types.IsInteger != 0:
			w := typeWidth(t)
			if i, ok := constant.Int64Val(constant.ToInt(c.Value)); ok {
				return e.tb.Const(w, uint64(i))
			}
			ui, _ := constant.Uint64Val(constant.ToInt(c.Value))
			return e.tb.Const(w, ui)
		case u.Info()&types.IsFloat != 0:
			f, _ := constant.Float64Val(c.Value)
			if typeWidth(t) == 32 {
				return e.tb.Const(32, uint64(math.Float32bits(float32(f))))
			}
			return e.tb.Const(64, math.Float64bits(f))
		}
	}
	e.unsupported("constant of type %s", t)
	return nil
}

// ---------- globals / package init ----------

func (e *Exec) globalObj(g *ssa.Global) *Obj {
	if o, ok := e.globals[g]; ok {
		return o
	}
	e.ensureInit(g.Pkg)
	elem := g.Type().(*types.Pointer).Elem()
	o := e.allocValue(elem, g.String()).Obj
	o.Epoch = -1
	o.Global = g
	if pv, ok := e.pristine[g]; ok {
		o.Val = copyVal(pv.Val)
		o.Bytes = pv.Bytes
		o.Cells = nil
		for _, c := range pv.Cells {
			o.Cells = append(o.Cells, copyVal(c))
		}
	}
	e.globals[g] = o
	return o
}

// Poison marks values that package initialisation could not compute.
type Poison struct{ Why string }

func (e *Exec) ensureInit(pkg *ssa.Package) {
	if pkg == nil || e.initDone[pkg] || e.initMode {
		return
	}
	e.initDone[pkg] = true
	initFn := pkg.Func("init")
	if initFn == nil || initFn.Blocks == nil {
		return
	}
	// run in init mode with a private global map
	savedGlobals, savedStack, savedDepth, savedSteps := e.globals, e.stack, e.depth, e.steps
	savedRes := e.res
	savedTrack := e.track
	e.track = false
	defer func() { e.track = savedTrack }()
	e.res = &HarnessResult{Reached: map[string]int{}, Outcomes: map[string]int{}, Funcs: map[string]bool{}}
	e.globals = map[*ssa.Global]*Obj{}
	e.initMode = true
	func() {
		defer func() {
			if r := recover(); r != nil {
				switch r := r.(type) {
				case *pathEnd:
					e.note("init of %s stopped: %s %s", pkg.Pkg.Path(), r.kind, r.detail)
				case *goPanic:
					e.note("init of %s panicked: %s %s", pkg.Pkg.Path(), r.kind, r.detail)
				default:
					panic(r)
				}
			}
		}()
		e.runInit(pkg, initFn)
	}()
	e.initMode = false
	for g, o := range e.globals {
		if g.Pkg == pkg {
			e.pristine[g] = o
		}
	}
	e.globals, e.stack, e.depth, e.steps = savedGlobals, savedStack, savedDepth, savedSteps
	e.res = savedRes
}

// runInit interprets the synthetic package initialiser tolerantly.
func (e *Exec) runInit(pkg *ssa.Package, fn *ssa.Function) {
	fr := &frame{fn: fn, env: map[ssa.Value]Value{}, visits: map[*ssa.BasicBlock]int{}}
	e.stack = append(e.stack, fn)
	b := fn.Blocks[0]
	isRepo := strings.HasPrefix(pkg.Pkg.Path(), e.Cfg.RepoPrefix) && e.Cfg.RepoPrefix != ""
	hooked := false
	defer func() {
		if !hooked && e.Hooks.PackageInit != nil {
			e.Hooks.PackageInit(e, pkg)
		}
	}()
	for b != nil {
		fr.visits[b]++
		if fr.visits[b] > 4 {
			return
		}
		var next *ssa.BasicBlock
		i := 0
		if fr.prev != nil {
			pidx := 0
			for k, p := range b.Preds {
				if p == fr.prev {
					pidx = k
				}
			}
			for ; i < len(b.Instrs); i++ {
				phi, ok := b.Instrs[i].(*ssa.Phi)
				if !ok {
					break
				}
				fr.env[phi] = e.eval(fr, phi.Edges[pidx])
			}
		}
		for ; i < len(b.Instrs); i++ {
			instr := b.Instrs[i]
			switch in := instr.(type) {
			case *ssa.If:
				c, ok := e.evalTolerant(fr, in.Cond).(*Term)
				if !ok || !c.IsConst() {
					e.note("init of %s: non-constant branch, stopping", pkg.Pkg.Path())
					return
				}
				if strings.Contains(in.Cond.String(), "init$guard") || isGuardLoad(in.Cond) {
					// "if guard { return }": guard is false on first run
					next = b.Succs[1]
				} else if c.IsTrue() {
					next = b.Succs[0]
				} else {
					next = b.Succs[1]
				}
			case *ssa.Jump:
				next = b.Succs[0]
			case *ssa.Return:
				return
			case *ssa.Panic:
				return
			case *ssa.Call:
				if callee := in.Call.StaticCallee(); callee != nil {
					if callee.Name() == "init" && callee.Synthetic != "" {
						continue // other package's initialiser: lazy
					}
					if strings.HasPrefix(callee.Name(), "init#") {
						if !isRepo && !(e.Cfg.InitFuncs != nil && e.Cfg.InitFuncs(pkg.Pkg.Path())) {
							continue
						}
						if !hooked && e.Hooks.PackageInit != nil {
							hooked = true
							e.Hooks.PackageInit(e, pkg)
						}
					}
				}
				e.execTolerant(fr, instr)
			default:
				e.execTolerant(fr, instr)
			}
		}
		fr.prev = b
		b = next
	}
}

func isGuardLoad(v ssa.Value) bool {
	if u, ok := v.(*ssa.UnOp); ok && u.Op == token.MUL {
		if g, ok := u.X.(*ssa.Global); ok {
			return g.Name() == "init$guard"
		}
	}
	return false
}

func (e *Exec) evalTolerant(fr *frame, v ssa.Value) (r Value) {
	defer func() {
		if x := recover(); x != nil {
			if _, ok := x.(*pathEnd); ok {
				r = &Poison{}
				return
			}
			panic(x)
		}
	}()
	return e.eval(fr, v)
}

func (e *Exec) execTolerant(fr *frame, instr ssa.Instruction) {
	defer func() {
		if x := recover(); x != nil {
			var why string
			switch x := x.(type) {
			case *pathEnd:
				why = x.kind + " " + x.detail
			case *goPanic:
				why = "panic " + x.kind + " " + x.detail
			default:
				panic(x)
			}
			if v, ok := instr.(ssa.Value); ok {
				fr.env[v] = &Poison{Why: why}
			}
		}
	}()
	e.exec(fr, instr)
}

// allFuncs enumerates every function of the program once (cached).
func (e *Exec) allFuncs() map[*ssa.Function]bool {
	if e.funcsCache == nil {
		e.funcsCache = ssautilAllFunctions(e.Prog)
	}
	return e.funcsCache
}

// addWrittenGlobals names the package-level variables of the harness's own package that
// the tracked operations wrote to, so the native replay can watch exactly those.
func (e *Exec) addWrittenGlobals(m map[string]string) {
	if m == nil || len(e.writes) == 0 || len(e.stack) == 0 {
		return
	}
	var hp *ssa.Package
	for _, f := range e.stack {
		if strings.HasPrefix(f.Name(), "VH_") {
			hp = f.Pkg
			break
		}
	}
	seen := map[string]bool{}
	var names []string
	for _, w := range e.writes {
		if g := w.obj.Global; g != nil && g.Pkg == hp && !seen[g.Name()] && !strings.Contains(g.Name(), "$") {
			seen[g.Name()] = true
			names = append(names, g.Name())
		}
	}
	if len(names) > 0 {
		m["_written_globals"] = strings.Join(names, ",")
	}
}

func (e *Exec) explainRange(cond *Term) string {
	var sb strings.Builder
	var walk func(t *Term, d int)
	walk = func(t *Term, d int) {
		if d > 3 {
			return
		}
		switch t.Op {
		case OpBAnd, OpBOr, OpBNot:
			for _, a := range t.Args {
				walk(a, d)
			}
		case OpSlt, OpUlt, OpEq:
			for _, a := range t.Args {
				r := e.rangeOf(a)
				fmt.Fprintf(&sb, " [%s: ok=%v lo=%d hi=%d]", showDepth(a, 2), r.ok, r.lo, r.hi)
				if a.lin != nil {
					for _, lt := range a.lin.ts {
						rr := e.rangeOf(lt.t)
						fmt.Fprintf(&sb, " {%d*%s ok=%v %d..%d}", int64(lt.c), showDepth(lt.t, 1), rr.ok, rr.lo, rr.hi)
					}
				}
			}
		}
	}
	walk(cond, 0)
	return sb.String()
}

func (e *Exec) funcByName(name string) *ssa.Function {
	if e.byName == nil {
		e.byName = map[string]*ssa.Function{}
		for f := range e.allFuncs() {
			e.byName[f.String()] = f
		}
	}
	f := e.byName[name]
	if f == nil {
		e.unsupported("function %s not found in the program", name)
	}
	return f
}
