package sym

import (
	"fmt"
	"go/types"
	"strings"

	"golang.org/x/tools/go/ssa"
)

// Contract stubs for pgregory.net/rapid: a generator is an opaque description; Draw
// returns ANY value the generator may produce (fresh symbol + range assumption).

const rapidPkg = "pgregory.net/rapid."

func registerRapid(e *Exec) {
	in := e.intrinsics
	gen := func(kind string) intrinsic {
		return func(e *Exec, a []Value, call *ssa.CallCommon) Value {
			o := &Opaque{Class: "rapidgen", Name: kind, Attrs: map[string]Value{}}
			for i, v := range a {
				o.Attrs[fmt.Sprintf("a%d", i)] = v
			}
			return o
		}
	}
	for _, k := range []string{"Bool", "Int", "Int32", "Int64", "Uint32", "Uint64", "Byte", "Float32", "Float64", "String",
		"IntRange", "Int32Range", "Int64Range", "Uint32Range", "Uint64Range", "StringMatching"} {
		in[rapidPkg+k] = gen(k)
	}
	// generic constructors are matched through their origin
	in[rapidPkg+"SliceOf"] = gen("SliceOf")
	in[rapidPkg+"SliceOfN"] = gen("SliceOfN")
	in[rapidPkg+"SampledFrom"] = gen("SampledFrom")
	in["(*"+rapidPkg+"Generator).Draw"] = func(e *Exec, a []Value, call *ssa.CallCommon) Value {
		g, ok := a[0].(*Opaque)
		if !ok || g.Class != "rapidgen" {
			e.unsupported("Draw on %T", a[0])
		}
		label := "draw"
		if s, ok := a[2].(*Str); ok {
			if cs, ok := e.concreteStr(s); ok {
				label = "draw." + cs
			}
		}
		return e.rapidDraw(g, label)
	}
	in["(*"+rapidPkg+"T).Fatalf"] = func(e *Exec, a []Value, call *ssa.CallCommon) Value {
		e.res.Reached["rapid.fatalf"]++
		e.res.Obligations++
		v := &Violation{Harness: e.res.Name, AssertID: "generator.fatalf", Kind: "assert", Detail: "rapid.T.Fatalf reached" + e.pathNotes(), Path: e.res.Paths}
		if e.solver.Check() == Sat {
			v.Model = e.extractModel()
		}
		e.res.Violations = append(e.res.Violations, v)
		panic(&pathEnd{kind: "violation", detail: "Fatalf"})
	}
	failIf := func(id string, bad func(e *Exec, a []Value) *Term) intrinsic {
		return func(e *Exec, a []Value, call *ssa.CallCommon) Value {
			e.assertProp(id, e.tb.Not(bad(e, a)))
			return nil
		}
	}
	in["gotest.tools/v3/assert.Assert"] = failIf("generator.assert", func(e *Exec, a []Value) *Term {
		// comparison is interface{}: a bool
		ifc := a[1].(*Iface)
		if ifc.Typ == nil {
			return e.tb.True
		}
		if t, ok := ifc.Val.(*Term); ok && t.W == 0 {
			return e.tb.Not(t)
		}
		e.unsupported("assert.Assert with non-bool comparison")
		return nil
	})
	in["gotest.tools/v3/assert.NilError"] = failIf("generator.nilerror", func(e *Exec, a []Value) *Term {
		return e.tb.Bool(a[1].(*Iface).Typ != nil)
	})
}

func (e *Exec) rapidRange(name string, w int, lo, hi *Term, signed bool) Value {
	v := e.freshBV(name, w)
	if signed {
		e.assume(e.tb.And(e.tb.Sle(lo, v), e.tb.Sle(v, hi)))
	} else {
		e.assume(e.tb.And(e.tb.Ule(lo, v), e.tb.Ule(v, hi)))
	}
	return v
}

func (e *Exec) rapidDraw(g *Opaque, label string) Value {
	a0, _ := g.Attrs["a0"].(*Term)
	a1, _ := g.Attrs["a1"].(*Term)
	switch g.Name {
	case "Bool":
		return e.freshBV(label, 0)
	case "Int", "Int64", "Uint64", "Float64":
		return e.freshBV(label, 64)
	case "Int32", "Uint32", "Float32":
		return e.freshBV(label, 32)
	case "Byte":
		return e.freshBV(label, 8)
	case "IntRange", "Int64Range":
		return e.rapidRange(label, 64, a0, a1, true)
	case "Int32Range":
		return e.rapidRange(label, 32, a0, a1, true)
	case "Uint32Range":
		return e.rapidRange(label, 32, a0, a1, false)
	case "Uint64Range":
		return e.rapidRange(label, 64, a0, a1, false)
	case "String", "StringMatching":
		s := e.freshBytes(label, 3)
		return &Str{Arr: s.Obj.Bytes, Off: s.Off, Len: s.Len, MaxLen: 3}
	case "SliceOf", "SliceOfN":
		elem, _ := g.Attrs["a0"].(*Opaque)
		if elem == nil {
			e.unsupported("SliceOf without element generator")
		}
		if elem.Name == "Byte" {
			return e.freshBytes(label, 3)
		}
		min := 0
		if g.Name == "SliceOfN" {
			if m, ok := g.Attrs["a1"].(*Term); ok && m.IsConst() {
				min = int(m.SignedVal())
			}
		}
		n := min + e.choice(2)
		et := types.Type(types.Typ[types.String])
		o := e.newObj(ObjCells, et)
		for i := 0; i < n; i++ {
			o.Cells = append(o.Cells, e.rapidDraw(elem, fmt.Sprintf("%s.%d", label, i)))
		}
		o.Cap = e.c64(int64(n))
		return &Slice{Obj: o, Off: e.c64(0), Len: e.c64(int64(n)), Cap: e.c64(int64(n)), MaxLen: n}
	case "SampledFrom":
		sl, ok := g.Attrs["a0"].(*Slice)
		if !ok || sl.Obj == nil {
			e.unsupported("SampledFrom on %T", g.Attrs["a0"])
		}
		n := int(e.concretize(sl.Len, "SampledFrom length"))
		k := e.choice(n)
		off := int(e.concretize(sl.Off, "SampledFrom offset"))
		return copyVal(sl.Obj.Cells[off+k])
	}
	e.unsupported("rapid generator %s", g.Name)
	return nil
}

var _ = strings.HasPrefix
