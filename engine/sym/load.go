package sym

import (
	"fmt"
	"os"
	"regexp"
	"sort"
	"strings"
	"sync"

	"golang.org/x/tools/go/packages"
	"golang.org/x/tools/go/ssa"
	"golang.org/x/tools/go/ssa/ssautil"
)

type Loaded struct {
	Prog  *ssa.Program
	Pkgs  []*packages.Package
	SSA   []*ssa.Package
	ByPkg map[string]*ssa.Package
}

// Load type-checks and builds SSA for the given patterns (and all dependencies) with
// harness files injected through overlay (absolute path -> content).
func Load(dir string, patterns []string, overlay map[string][]byte, env []string) (*Loaded, error) {
	cfg := &packages.Config{
		Mode:    packages.LoadAllSyntax,
		Dir:     dir,
		Overlay: overlay,
		Env:     env,
	}
	pkgs, err := packages.Load(cfg, patterns...)
	if err != nil {
		return nil, err
	}
	var errs []string
	packages.Visit(pkgs, nil, func(p *packages.Package) {
		for _, e := range p.Errors {
			errs = append(errs, e.Error())
		}
	})
	if len(errs) > 0 {
		if len(errs) > 10 {
			errs = errs[:10]
		}
		return nil, fmt.Errorf("package errors:\n%s", strings.Join(errs, "\n"))
	}
	prog, spkgs := ssautil.AllPackages(pkgs, ssa.InstantiateGenerics)
	prog.Build()
	l := &Loaded{Prog: prog, Pkgs: pkgs, SSA: spkgs, ByPkg: map[string]*ssa.Package{}}
	for _, p := range prog.AllPackages() {
		l.ByPkg[p.Pkg.Path()] = p
	}
	return l, nil
}

// Harnesses returns functions whose name matches re in the initial packages, sorted.
func (l *Loaded) Harnesses(re *regexp.Regexp) []*ssa.Function {
	var fns []*ssa.Function
	for _, p := range l.SSA {
		if p == nil {
			continue
		}
		for _, m := range p.Members {
			if f, ok := m.(*ssa.Function); ok && strings.HasPrefix(f.Name(), "VH_") && re.MatchString(f.Name()) {
				fns = append(fns, f)
			}
		}
	}
	sort.Slice(fns, func(i, j int) bool { return fns[i].String() < fns[j].String() })
	return fns
}

// RunAll runs harnesses on a pool of workers, each with its own solver.
func RunAll(l *Loaded, fns []*ssa.Function, workers int, solver string, timeoutMs int, cfg Config, hooks Hooks, progress func(*HarnessResult)) ([]*HarnessResult, error) {
	results := make([]*HarnessResult, len(fns))
	var mu sync.Mutex
	next := 0
	var wg sync.WaitGroup
	var firstErr error
	if workers > len(fns) {
		workers = len(fns)
	}
	for w := 0; w < workers; w++ {
		wg.Add(1)
		go func() {
			defer wg.Done()
			for {
				mu.Lock()
				i := next
				next++
				mu.Unlock()
				if i >= len(fns) {
					return
				}
				// a fresh executor (term table + solver) per harness keeps memory bounded
				ex, err := NewExec(l.Prog, solver, timeoutMs, cfg)
				if err != nil {
					mu.Lock()
					firstErr = err
					mu.Unlock()
					return
				}
				ex.Hooks = hooks
				ex.UseModels = os.Getenv("SYMGO_NOMODELS") == ""
				res := ex.RunHarness(fns[i])
				ex.Close()
				results[i] = res
				if progress != nil {
					mu.Lock()
					progress(res)
					mu.Unlock()
				}
			}
		}()
	}
	wg.Wait()
	return results, firstErr
}
