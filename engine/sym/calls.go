package sym

import (
	"fmt"
	"go/types"
	"strings"
	"sync"

	"golang.org/x/tools/go/ssa"
)

func (e *Exec) doCall(fr *frame, call *ssa.CallCommon, instr *ssa.Call) Value {
	fn, args, free, recv := e.resolveCall(fr, call)
	return e.invoke(fn, args, free, recv, call)
}

// resolveCall evaluates callee and arguments. For opaque receivers fn is a native closure.
func (e *Exec) resolveCall(fr *frame, call *ssa.CallCommon) (fn *Closure, args []Value, free []Value, recv *Iface) {
	for _, a := range call.Args {
		args = append(args, e.eval(fr, a))
	}
	if call.IsInvoke() {
		rv := e.eval(fr, call.Value)
		if p, ok := rv.(*Poison); ok {
			e.unsupported("use of value package init could not compute: %s", p.Why)
		}
		ifc, ok := rv.(*Iface)
		if !ok {
			e.unsupported("invoke on %T", rv)
		}
		if ifc.Typ == nil {
			panic(&goPanic{kind: "nil", detail: "method " + call.Method.Name() + " called on nil interface at " + e.pos2(call.Pos())})
		}
		switch rcv := ifc.Val.(type) {
		case *Opaque:
			name := call.Method.Name()
			return &Closure{Name: "opaque:" + name, Native: func(e *Exec, a []Value) Value {
				return e.opaqueCall(rcv, name, a, call)
			}}, args, nil, ifc
		}
		m := e.Prog.LookupMethod(ifc.Typ, call.Method.Pkg(), call.Method.Name())
		if m == nil {
			e.unsupported("no method %s on %s", call.Method.Name(), ifc.Typ)
		}
		return &Closure{Fn: m}, append([]Value{ifc.Val}, args...), nil, ifc
	}
	switch v := call.Value.(type) {
	case *ssa.Builtin:
		return &Closure{Name: "builtin:" + v.Name()}, args, nil, nil
	case *ssa.Function:
		return &Closure{Fn: v}, args, nil, nil
	}
	cv := e.eval(fr, call.Value)
	c, ok := cv.(*Closure)
	if !ok {
		if p, ok := cv.(*Poison); ok {
			e.unsupported("call of value package init could not compute: %s", p.Why)
		}
		e.unsupported("call of %T", cv)
	}
	if c.Fn == nil && c.Native == nil && c.Name == "" {
		panic(&goPanic{kind: "nil", detail: "call of nil func at " + e.pos2(call.Pos())})
	}
	return c, args, c.Free, nil
}

func (e *Exec) invoke(c *Closure, args []Value, free []Value, recv *Iface, call *ssa.CallCommon) Value {
	switch {
	case c.Native != nil:
		return c.Native(e, args)
	case strings.HasPrefix(c.Name, "builtin:"):
		return e.builtin(c.Name[8:], args, call)
	case c.Fn != nil:
		if c.Free != nil && free == nil {
			free = c.Free
		}
		if in := e.lookupIntrinsic(c.Fn); in != nil && e.skipIntrinsic != c.Fn {
			if e.res != nil {
				e.res.Funcs[c.Fn.String()] = true
			}
			return in(e, args, call)
		}
		return e.call(c.Fn, args, free)
	}
	e.unsupported("invoke of empty closure")
	return nil
}

// callClosure calls a function value with arguments (used by intrinsics).
func (e *Exec) callClosure(v Value, args ...Value) Value {
	c, ok := v.(*Closure)
	if !ok {
		e.unsupported("callClosure on %T", v)
	}
	return e.invoke(c, args, c.Free, nil, nil)
}

func (e *Exec) builtin(name string, args []Value, call *ssa.CallCommon) Value {
	tb := e.tb
	switch name {
	case "len":
		switch a := args[0].(type) {
		case *Slice:
			return a.Len
		case *Str:
			return a.Len
		case *MapRef:
			if a.Obj == nil {
				return e.c64(0)
			}
			return e.c64(int64(len(a.Obj.Ents)))
		case *ArrayVal:
			return e.c64(int64(len(a.Elems)))
		case *Ptr:
			if a.Obj != nil && a.Obj.Cap != nil {
				return a.Obj.Cap
			}
		}
	case "cap":
		switch a := args[0].(type) {
		case *Slice:
			return a.Cap
		case *ArrayVal:
			return e.c64(int64(len(a.Elems)))
		}
	case "append":
		return e.appendOp(args[0].(*Slice), args[1], call)
	case "copy":
		return e.copyOp(args[0].(*Slice), args[1])
	case "delete":
		e.mapDelete(args[0].(*MapRef), args[1])
		return nil
	case "print", "println":
		return nil
	case "recover":
		if e.curPanic != nil && !e.curPanic.recovered {
			e.curPanic.recovered = true
			if e.curPanic.val != nil {
				return e.curPanic.val
			}
			return e.opaqueIface("error", "runtime panic: "+e.curPanic.kind)
		}
		return &Iface{}
	case "ssa:wrapnilchk":
		p := e.asPtr(args[0])
		if p.Obj == nil {
			panic(&goPanic{kind: "nil", detail: "value method called through nil pointer"})
		}
		return args[0]
	case "min", "max":
		a, b := args[0].(*Term), args[1].(*Term)
		signed := true
		if call != nil {
			signed = isSigned(call.Args[0].Type())
		}
		var lt *Term
		if signed {
			lt = tb.Slt(a, b)
		} else {
			lt = tb.Ult(a, b)
		}
		if name == "min" {
			return tb.Ite(lt, a, b)
		}
		return tb.Ite(lt, b, a)
	}
	e.unsupported("builtin %s on %T", name, args[0])
	return nil
}

func (e *Exec) appendOp(s *Slice, more Value, call *ssa.CallCommon) Value {
	tb := e.tb
	var elemT types.Type
	if call != nil {
		if st, ok := call.Args[0].Type().Underlying().(*types.Slice); ok {
			elemT = st.Elem()
		}
	}
	// source description
	var srcLen *Term
	var srcStr *Str
	var srcSl *Slice
	switch m := more.(type) {
	case *Str:
		srcStr = m
		srcLen = m.Len
	case *Slice:
		srcSl = m
		srcLen = m.Len
	default:
		e.unsupported("append of %T", more)
	}
	if srcLen.IsConst() && srcLen.Val == 0 && !(s.Obj == nil && srcSl != nil && srcSl.Obj != nil) {
		return s
	}
	bytesMode := false
	if s.Obj != nil {
		bytesMode = s.Obj.Kind == ObjBytes
	} else if srcStr != nil {
		bytesMode = true
	} else if srcSl.Obj != nil {
		bytesMode = srcSl.Obj.Kind == ObjBytes
	} else if elemT != nil {
		bytesMode = isByteType(elemT)
	}
	if s.Obj == nil && !srcLen.IsConst() {
		// appending nothing to a nil slice yields nil (no allocation): matters for x == nil tests
		if e.branch(tb.Eq(srcLen, e.c64(0)), false) {
			return s
		}
	}
	newLen := tb.Add(s.Len, srcLen)
	inPlace := false
	if s.Obj != nil {
		inPlace = e.branch(tb.Sle(newLen, s.Cap), false)
	}
	ml := -1
	if newLen.IsConst() {
		ml = int(newLen.Val)
	} else if s.MaxLen >= 0 {
		sm := -1
		if srcStr != nil {
			sm = srcStr.MaxLen
		} else {
			sm = srcSl.MaxLen
		}
		if sm >= 0 {
			ml = s.MaxLen + sm
		}
	}
	if bytesMode {
		var srcArr ArrExpr
		var srcOff *Term
		if srcStr != nil {
			srcArr, srcOff = srcStr.Arr, srcStr.Off
		} else if srcSl.Obj != nil {
			srcArr, srcOff = srcSl.Obj.Bytes, srcSl.Off
		} else {
			srcArr, srcOff = nil, e.c64(0)
		}
		if inPlace {
			e.recordWrite(s.Obj, "append")
			s.Obj.Bytes = &arrCopy{base: s.Obj.Bytes, dst: tb.Add(s.Off, s.Len), n: srcLen, src: srcArr, srcOff: srcOff}
			return &Slice{Obj: s.Obj, Off: s.Off, Len: newLen, Cap: s.Cap, MaxLen: ml}
		}
		o := e.newObj(ObjBytes, types.Typ[types.Uint8])
		var base ArrExpr
		if s.Obj != nil {
			base = &arrCopy{base: nil, dst: e.c64(0), n: s.Len, src: s.Obj.Bytes, srcOff: s.Off}
		}
		o.Bytes = &arrCopy{base: base, dst: s.Len, n: srcLen, src: srcArr, srcOff: srcOff}
		o.Cap = newLen
		e.allocs = append(e.allocs, allocRec{"append", newLen})
		return &Slice{Obj: o, Off: e.c64(0), Len: newLen, Cap: newLen, MaxLen: ml}
	}
	// cells mode: concrete lengths
	n := int(e.concretize(srcLen, "append source length"))
	var src []Value
	if srcSl != nil && srcSl.Obj != nil {
		so := int(e.concretize(srcSl.Off, "append source offset"))
		e.realise(srcSl.Obj, so+n)
		for i := 0; i < n; i++ {
			src = append(src, copyVal(srcSl.Obj.Cells[so+i]))
		}
	}
	if inPlace {
		e.recordWrite(s.Obj, "append")
		off := int(e.concretize(s.Off, "append offset"))
		l := int(e.concretize(s.Len, "append length"))
		e.realise(s.Obj, off+l+n)
		for i := 0; i < n; i++ {
			s.Obj.Cells[off+l+i] = src[i]
		}
		return &Slice{Obj: s.Obj, Off: s.Off, Len: newLen, Cap: s.Cap, MaxLen: ml}
	}
	var et types.Type = elemT
	if s.Obj != nil {
		et = s.Obj.Typ
	} else if srcSl != nil && srcSl.Obj != nil {
		et = srcSl.Obj.Typ
	}
	o := e.newObj(ObjCells, et)
	l := int(e.concretize(s.Len, "append length"))
	if s.Obj != nil {
		off := int(e.concretize(s.Off, "append offset"))
		e.realise(s.Obj, off+l)
		for i := 0; i < l; i++ {
			o.Cells = append(o.Cells, copyVal(s.Obj.Cells[off+i]))
		}
	}
	o.Cells = append(o.Cells, src...)
	o.Cap = newLen
	// amortised accounting: the model reallocates on every append (capacity == length, the
	// conservative choice for aliasing), Go grows geometrically; charging the whole new
	// backing store each time would make k appends look quadratic, so only the added
	// elements are charged (8 bytes each, the widest scalar)
	e.allocs = append(e.allocs, allocRec{"append", tb.Mul(e.c64(int64(n)), e.c64(8))})
	return &Slice{Obj: o, Off: e.c64(0), Len: newLen, Cap: newLen, MaxLen: ml}
}

func (e *Exec) copyOp(dst *Slice, srcv Value) Value {
	tb := e.tb
	var srcLen, srcOff *Term
	var srcArr ArrExpr
	var srcSl *Slice
	switch s := srcv.(type) {
	case *Str:
		srcLen, srcOff, srcArr = s.Len, s.Off, s.Arr
	case *Slice:
		srcSl = s
		srcLen, srcOff = s.Len, s.Off
		if s.Obj != nil && s.Obj.Kind == ObjBytes {
			srcArr = s.Obj.Bytes
		}
	default:
		e.unsupported("copy from %T", srcv)
	}
	n := tb.Ite(tb.Slt(dst.Len, srcLen), dst.Len, srcLen)
	if n.IsConst() && n.Val == 0 {
		return n
	}
	if dst.Obj == nil {
		return e.c64(0)
	}
	e.recordWrite(dst.Obj, "copy")
	if dst.Obj.Kind == ObjBytes {
		if srcSl != nil && srcSl.Obj == nil {
			return e.c64(0)
		}
		dst.Obj.Bytes = &arrCopy{base: dst.Obj.Bytes, dst: dst.Off, n: n, src: srcArr, srcOff: srcOff}
		return n
	}
	cn := int(e.concretize(n, "copy length"))
	do := int(e.concretize(dst.Off, "copy dst offset"))
	so := int(e.concretize(srcOff, "copy src offset"))
	e.realise(dst.Obj, do+cn)
	e.realise(srcSl.Obj, so+cn)
	tmp := make([]Value, cn)
	for i := 0; i < cn; i++ {
		tmp[i] = copyVal(srcSl.Obj.Cells[so+i])
	}
	for i := 0; i < cn; i++ {
		dst.Obj.Cells[do+i] = tmp[i]
	}
	return n
}

// ---------- opaque objects ----------

var opaqueTypes = map[string]*types.Named{}
var opaqueMu sync.Mutex

func opaqueType(class string) types.Type {
	opaqueMu.Lock()
	defer opaqueMu.Unlock()
	if t, ok := opaqueTypes[class]; ok {
		return t
	}
	t := types.NewNamed(types.NewTypeName(0, nil, "opaque."+class, nil), types.NewStruct(nil, nil), nil)
	opaqueTypes[class] = t
	return t
}

func (e *Exec) newOpaque(class, name string) *Opaque {
	e.opaqueSeq++
	return &Opaque{Class: class, ID: e.opaqueSeq, Name: name, Attrs: map[string]Value{}}
}

func (e *Exec) opaqueIface(class, name string) *Iface {
	return &Iface{Typ: opaqueType(class), Val: e.newOpaque(class, name)}
}

func wrapOpaque(o *Opaque) *Iface { return &Iface{Typ: opaqueType(o.Class), Val: o} }

// OpaqueHandler implements the methods of one opaque class.
type OpaqueHandler func(e *Exec, o *Opaque, method string, args []Value, call *ssa.CallCommon) (Value, bool)

var opaqueHandlers = map[string]OpaqueHandler{}
var opaqueIfaces = map[string][]string{} // class -> names of interface types it implements ("pkg.Name")

func (e *Exec) opaqueImplements(o *Opaque, it *types.Interface) bool {
	// every method of the interface must be known to the class handler; we approximate by
	// consulting the declared interface list
	if it.NumMethods() == 0 {
		return true
	}
	if o.Class == "error" {
		return isErrorIface(it)
	}
	for _, n := range opaqueIfaces[o.Class] {
		if cand := e.lookupNamedType(n); cand != nil {
			if ci, ok := cand.Underlying().(*types.Interface); ok {
				if types.Identical(ci, it) || implementsIface(ci, it) {
					return true
				}
			}
		}
	}
	return false
}

// implementsIface: does interface a have all methods of b?
func implementsIface(a, b *types.Interface) bool {
	for i := 0; i < b.NumMethods(); i++ {
		m := b.Method(i)
		obj, _, _ := types.LookupFieldOrMethod(a, false, m.Pkg(), m.Name())
		if obj == nil {
			return false
		}
	}
	return true
}

func (e *Exec) lookupNamedType(path string) types.Type {
	i := strings.LastIndex(path, ".")
	if i < 0 {
		return nil
	}
	pkg := e.Prog.ImportedPackage(path[:i])
	if pkg == nil {
		return nil
	}
	obj := pkg.Pkg.Scope().Lookup(path[i+1:])
	if obj == nil {
		return nil
	}
	return obj.Type()
}

func (e *Exec) opaqueCall(o *Opaque, method string, args []Value, call *ssa.CallCommon) Value {
	if h, ok := opaqueHandlers[o.Class]; ok {
		if v, ok := h(e, o, method, args, call); ok {
			return v
		}
	}
	e.unsupported("method %s on opaque %s", method, o.Class)
	return nil
}

func (e *Exec) String() string { return fmt.Sprintf("exec(%d terms)", e.tb.NumTerms()) }
