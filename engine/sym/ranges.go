package sym

// Cheap interval + linear-form reasoning used to decide branch conditions without a
// solver query. Every fact used is implied by the current path condition (ranges are
// learned only from literals on this path or follow structurally from the term), and a
// comparison is decided only when all quantities involved provably do not wrap, so the
// bit-vector comparison coincides with the comparison of mathematical integers.

const rngBig = int64(1) << 60

type rng struct {
	lo, hi int64
	ok     bool
}

func (r rng) bounded() bool { return r.ok && r.lo > -rngBig && r.hi < rngBig }

func (e *Exec) learnRange(cond *Term, v bool) {
	switch cond.Op {
	case OpBNot:
		e.learnRange(cond.Args[0], !v)
	case OpBAnd:
		if v {
			e.learnRange(cond.Args[0], true)
			e.learnRange(cond.Args[1], true)
		}
	case OpBOr:
		if !v {
			e.learnRange(cond.Args[0], false)
			e.learnRange(cond.Args[1], false)
		}
	case OpSlt:
		a, b := cond.Args[0], cond.Args[1]
		if a.W != 64 {
			return
		}
		if b.IsConst() {
			c := b.SignedVal()
			if v {
				e.narrow(a, -1<<63, c-1)
			} else {
				e.narrow(a, c, 1<<63-1)
			}
		} else if a.IsConst() {
			c := a.SignedVal()
			if v {
				e.narrow(b, c+1, 1<<63-1)
			} else {
				e.narrow(b, -1<<63, c)
			}
		}
	case OpUlt:
		a, b := cond.Args[0], cond.Args[1]
		if a.W != 64 {
			return
		}
		if b.IsConst() && b.SignedVal() > 0 && v {
			e.narrow(a, 0, b.SignedVal()-1)
		} else if a.IsConst() && a.SignedVal() >= 0 && !v {
			// !(c <u b)  => b <=u c
			e.narrow(b, 0, a.SignedVal())
		}
	case OpEq:
		a, b := cond.Args[0], cond.Args[1]
		if a.W != 64 || !v {
			return
		}
		if b.IsConst() {
			e.narrow(a, b.SignedVal(), b.SignedVal())
		} else if a.IsConst() {
			e.narrow(b, a.SignedVal(), a.SignedVal())
		}
	}
}

func (e *Exec) narrow(t *Term, lo, hi int64) {
	r, ok := e.ranges[t]
	if !ok {
		r = rng{-1 << 63, 1<<63 - 1, true}
	}
	if lo > r.lo {
		r.lo = lo
	}
	if hi < r.hi {
		r.hi = hi
	}
	e.ranges[t] = r
	if len(e.rmemo) > 0 {
		e.rmemo = map[*Term]rng{}
	}
}

func satAdd(a, b int64) (int64, bool) {
	c := a + b
	if (a > 0 && b > 0 && c < 0) || (a < 0 && b < 0 && c >= 0) {
		return 0, false
	}
	return c, true
}

func satMul(a, b int64) (int64, bool) {
	if a == 0 || b == 0 {
		return 0, true
	}
	c := a * b
	if c/b != a || (a == -1 && b == -1<<63) || (b == -1 && a == -1<<63) {
		return 0, false
	}
	return c, true
}

// rangeOf returns a signed range of the 64-bit (or narrower, zero/sign extended by
// the caller) term, interpreted as a mathematical integer.
func (e *Exec) rangeOf(t *Term) rng {
	if t.W == 0 || t.W > 64 {
		return rng{}
	}
	if t.Op == OpConst {
		if t.W == 64 {
			return rng{t.SignedVal(), t.SignedVal(), true}
		}
		return rng{int64(t.Val), int64(t.Val), true} // unsigned view of narrow constants
	}
	if r, ok := e.rmemo[t]; ok {
		return r
	}
	r := e.rangeCompute(t)
	if k, ok := e.ranges[t]; ok && t.W == 64 {
		if !r.ok {
			r = k
		} else {
			if k.lo > r.lo {
				r.lo = k.lo
			}
			if k.hi < r.hi {
				r.hi = k.hi
			}
		}
	}
	e.rmemo[t] = r
	return r
}

// narrow terms (W<64) are given their unsigned range
func (e *Exec) rangeCompute(t *Term) rng {
	full := rng{}
	if t.W < 64 {
		full = rng{0, int64(mask(t.W)), true}
	}
	switch t.Op {
	case OpZext:
		a := e.rangeOf(t.Args[0])
		if a.ok && t.Args[0].W < 64 {
			return a
		}
		return rng{0, int64(mask(t.Args[0].W)), true}
	case OpSext:
		w := t.Args[0].W
		if t.W == 64 {
			return rng{-(int64(1) << uint(w-1)), int64(1)<<uint(w-1) - 1, true}
		}
		return full
	case OpIte:
		a, b := e.rangeOf(t.Args[1]), e.rangeOf(t.Args[2])
		if a.ok && b.ok {
			if b.lo < a.lo {
				a.lo = b.lo
			}
			if b.hi > a.hi {
				a.hi = b.hi
			}
			return a
		}
		return full
	case OpAnd:
		for _, a := range t.Args {
			if a.IsConst() && (t.W < 64 || a.SignedVal() >= 0) {
				return rng{0, int64(a.Val), true}
			}
		}
		return full
	case OpLshr:
		if t.Args[1].IsConst() && t.Args[1].Val > 0 && t.Args[1].Val < uint64(t.W) {
			return rng{0, int64(mask(t.W) >> t.Args[1].Val), true}
		}
		return full
	case OpSdiv:
		if t.W == 64 && t.Args[1].IsConst() && t.Args[1].SignedVal() > 0 {
			a := e.rangeOf(t.Args[0])
			if a.bounded() {
				c := t.Args[1].SignedVal()
				return rng{a.lo / c, a.hi / c, true}
			}
		}
		return full
	case OpUdiv:
		if t.Args[1].IsConst() && t.Args[1].SignedVal() > 0 {
			a := e.rangeOf(t.Args[0])
			if a.bounded() && a.lo >= 0 {
				c := t.Args[1].SignedVal()
				return rng{a.lo / c, a.hi / c, true}
			}
		}
		return full
	case OpSelect:
		return rng{0, 255, true}
	case OpAdd, OpSub, OpNeg, OpMul:
		if t.W == 64 && t.lin != nil {
			return e.rangeOfLin(t.lin)
		}
		return full
	}
	return full
}

// rangeOfLin evaluates a 64-bit linear form over integer ranges; ok only if no
// intermediate quantity can leave (-2^60, 2^60), hence no wrap-around is possible.
func (e *Exec) rangeOfLin(f *linForm) rng {
	lo, hi := int64(f.k), int64(f.k)
	if lo <= -rngBig || lo >= rngBig {
		return rng{}
	}
	for _, lt := range f.ts {
		r := e.rangeOf(lt.t)
		if !r.bounded() || lt.t.W != 64 {
			return rng{}
		}
		c := int64(lt.c)
		if c <= -rngBig || c >= rngBig {
			return rng{}
		}
		a, ok1 := satMul(c, r.lo)
		b, ok2 := satMul(c, r.hi)
		if !ok1 || !ok2 {
			return rng{}
		}
		if a > b {
			a, b = b, a
		}
		var ok bool
		if lo, ok = satAdd(lo, a); !ok {
			return rng{}
		}
		if hi, ok = satAdd(hi, b); !ok {
			return rng{}
		}
		if lo <= -rngBig || hi >= rngBig {
			return rng{}
		}
	}
	return rng{lo, hi, true}
}

// decideByRange returns (value, true) if cond is decided by interval reasoning.
func (e *Exec) decideByRange(cond *Term) (bool, bool) {
	switch cond.Op {
	case OpBNot:
		v, ok := e.decideByRange(cond.Args[0])
		return !v, ok
	case OpBAnd:
		a, oka := e.decideByRange(cond.Args[0])
		b, okb := e.decideByRange(cond.Args[1])
		if oka && okb {
			return a && b, true
		}
		if (oka && !a) || (okb && !b) {
			return false, true
		}
		return false, false
	case OpBOr:
		a, oka := e.decideByRange(cond.Args[0])
		b, okb := e.decideByRange(cond.Args[1])
		if oka && okb {
			return a || b, true
		}
		if (oka && a) || (okb && b) {
			return true, true
		}
		return false, false
	case OpSlt, OpUlt, OpEq:
		a, b := cond.Args[0], cond.Args[1]
		if a.W != 64 {
			return false, false
		}
		ra, rb := e.rangeOf(a), e.rangeOf(b)
		if !ra.bounded() || !rb.bounded() {
			return false, false
		}
		if cond.Op == OpUlt && (ra.lo < 0 || rb.lo < 0) {
			return false, false
		}
		d := e.rangeOfLin(linCombine(e.tb.linOf(b), 1, e.tb.linOf(a), mask(64), 64)) // b - a
		if !d.ok {
			d = rng{rb.lo - ra.hi, rb.hi - ra.lo, true}
		}
		if cond.Op == OpEq {
			if d.lo > 0 || d.hi < 0 {
				return false, true
			}
			if d.lo == 0 && d.hi == 0 {
				return true, true
			}
			return false, false
		}
		if d.lo > 0 {
			return true, true
		}
		if d.hi <= 0 {
			return false, true
		}
	}
	return false, false
}
