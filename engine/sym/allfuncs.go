package sym

import (
	"golang.org/x/tools/go/ssa"
	"golang.org/x/tools/go/ssa/ssautil"
)

func ssautilAllFunctions(p *ssa.Program) map[*ssa.Function]bool { return ssautil.AllFunctions(p) }

// AllFunctions exposes ssautil.AllFunctions to the driver.
func AllFunctions(p *ssa.Program) map[*ssa.Function]bool { return ssautil.AllFunctions(p) }
