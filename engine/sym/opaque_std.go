package sym

import (
	"go/types"

	"golang.org/x/tools/go/ssa"
)

func init() {
	opaqueHandlers["error"] = func(e *Exec, o *Opaque, method string, args []Value, call *ssa.CallCommon) (Value, bool) {
		switch method {
		case "Error":
			s := e.freshOpaqueBytes("errmsg")
			return &Str{Arr: s.Obj.Bytes, Off: s.Off, Len: s.Len, MaxLen: -1}, true
		}
		return nil, false
	}
}

func isErrorIface(it *types.Interface) bool {
	return it.NumMethods() == 1 && it.Method(0).Name() == "Error"
}
