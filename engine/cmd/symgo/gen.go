package main

import (
	"fmt"
	"sort"
	"strings"
)

// gen emits harness source for one generated-message package.
type gen struct {
	sb     strings.Builder
	s      *Schema
	strLen int // bound for symbolic string/bytes lengths
	keyLen int // bound for map key strings
	listN  int // max symbolic list elements
	mapN   int // max symbolic map entries
	pick   int // number of fields offered inside nested messages
	seed   int
	smallPayload int
	tier string
	propTag string
	h2seen map[string]bool
	lightAny bool // nested builders offer no unknown record (decode-step pre-states)
}

func (g *gen) p(format string, a ...interface{}) {
	fmt.Fprintf(&g.sb, format, a...)
	g.sb.WriteString("\n")
}

func (g *gen) header() {
	g.p("package %s", g.s.PkgName)
	g.p("")
	g.p("import (")
	g.p("\t\"math\"")
	g.p("\t\"google.golang.org/protobuf/encoding/protowire\"")
	g.p("\t\"google.golang.org/protobuf/proto\"")
	g.p("\t\"google.golang.org/protobuf/reflect/protoreflect\"")
	g.p("\t\"google.golang.org/protobuf/runtime/protoiface\"")
	g.p("\tvhruntime \"github.com/cosmos/cosmos-proto/runtime\"")
	var imps []string
	for path := range g.s.Imports {
		imps = append(imps, path)
	}
	sort.Strings(imps)
	for _, path := range imps {
		g.p("\t%s %q", g.s.Imports[path], path)
	}
	g.p(")")
	g.p("")
	g.p("var _ = math.Float32bits")
	g.p("var _ = protowire.AppendVarint")
	g.p("var _ = proto.Marshal")
	g.p("var _ protoreflect.Message")
	g.p("var _ protoiface.Methods")
	g.p("func vhIdx(p string, i int) string { return p + \".\" + string(rune('0'+i)) }")
	g.p("")
	g.p("// the executor replaces runtime.Sov/Soz by verified summaries; this harness proves, on the")
	g.p("// current tree and for all 2^64 arguments, that the real code equals them")
	g.p("func VH_%s_SUMMARY() {", g.propTag)
	g.p("\tx := vhU64(\"x\")")
	g.p("\tvhSummaries(false)")
	g.p("\trealSov, realSoz := vhruntime.Sov(x), vhruntime.Soz(x)")
	g.p("\tvhSummaries(true)")
	g.p("\tvhAssert(\"sov.summary\", realSov == vhruntime.Sov(x))")
	g.p("\tvhAssert(\"soz.summary\", realSoz == vhruntime.Soz(x))")
	g.p("\t// the same formula spelled out in Go (also what a native replay compares against)")
	g.p("\tvhAssert(\"sov.formula\", realSov == vhSovFormula(x))")
	g.p("\tvhAssert(\"soz.formula\", realSoz == vhSovFormula((x<<1)^uint64(int64(x)>>63)))")
	g.p("}")
	g.p("")
	g.p("func vhSovFormula(x uint64) int {")
	g.p("\tn := 1")
	g.p("\tfor k := uint(1); k <= 9; k++ {")
	g.p("\t\tif x >= 1<<(7*k) {")
	g.p("\t\t\tn++")
	g.p("\t\t}")
	g.p("\t}")
	g.p("\treturn n")
	g.p("}")
	g.p("")
	g.p("// vhLen: symbolic length bound of strings/bytes: large for the field under test, small when nested")
	g.p("func vhLen(d int) int {")
	g.p("\tif d >= 1 {")
	g.p("\t\treturn %d", g.strLen)
	g.p("\t}")
	g.p("\tif %d < 4 {", g.strLen)
	g.p("\t\treturn %d", g.strLen)
	g.p("\t}")
	g.p("\treturn 4")
	g.p("}")
	g.p("")
}

// ---------- per-kind snippets ----------

func scalarGo(f *Field) string {
	if f.Card == "repeated" {
		return f.ElemGo
	}
	return f.GoType
}

// symExpr returns an expression yielding a fresh symbolic value of the field's scalar type.
func (g *gen) symExpr(f *Field, name string, strBound int) string {
	t := scalarGo(f)
	switch f.Kind {
	case "int32", "sint32", "sfixed32":
		return fmt.Sprintf("vhI32(%s)", name)
	case "int64", "sint64", "sfixed64":
		return fmt.Sprintf("vhI64(%s)", name)
	case "uint32", "fixed32":
		return fmt.Sprintf("vhU32(%s)", name)
	case "uint64", "fixed64":
		return fmt.Sprintf("vhU64(%s)", name)
	case "bool":
		return fmt.Sprintf("vhBool(%s)", name)
	case "enum":
		return fmt.Sprintf("%s(vhI32(%s))", t, name)
	case "float":
		return fmt.Sprintf("math.Float32frombits(vhF32(%s))", name)
	case "double":
		return fmt.Sprintf("math.Float64frombits(vhF64(%s))", name)
	case "string":
		if strBound < 0 {
			return fmt.Sprintf("vhString(%s, vhLen(d))", name)
		}
		return fmt.Sprintf("vhString(%s, %d)", name, strBound)
	case "bytes":
		if strBound < 0 {
			return fmt.Sprintf("vhBytes(%s, vhLen(d))", name)
		}
		return fmt.Sprintf("vhBytes(%s, %d)", name, strBound)
	}
	panic("symExpr " + f.Kind)
}

// concExpr returns a fixed non-default representative value.
func (g *gen) concExpr(f *Field, variant int) string {
	t := scalarGo(f)
	switch f.Kind {
	case "int32", "sint32", "sfixed32", "int64", "sint64", "sfixed64":
		return fmt.Sprintf("%s(%d)", t, -3-variant)
	case "uint32", "fixed32", "uint64", "fixed64":
		return fmt.Sprintf("%s(%d)", t, 300+variant)
	case "bool":
		return "true"
	case "enum":
		return fmt.Sprintf("%s(%d)", t, 1+variant)
	case "float":
		return fmt.Sprintf("float32(%d.5)", 1+variant)
	case "double":
		return fmt.Sprintf("float64(-%d.25)", 2+variant)
	case "string":
		return fmt.Sprintf("\"s%d\"", variant)
	case "bytes":
		return fmt.Sprintf("[]byte{%d, 0xff}", variant)
	case "message":
		if f.MsgName != "" {
			return "&" + f.MsgName + "{}"
		}
		return "nil"
	}
	panic("concExpr " + f.Kind)
}

// appendVal returns a statement list appending the wire value (no tag) of v to b.
func (g *gen) appendVal(f *Field, b, v string) string {
	switch f.Kind {
	case "int32", "int64", "uint32", "uint64", "enum":
		return fmt.Sprintf("%s = protowire.AppendVarint(%s, uint64(%s))", b, b, v)
	case "sint32", "sint64":
		return fmt.Sprintf("%s = protowire.AppendVarint(%s, protowire.EncodeZigZag(int64(%s)))", b, b, v)
	case "bool":
		return fmt.Sprintf("%s = protowire.AppendVarint(%s, protowire.EncodeBool(%s))", b, b, v)
	case "fixed32", "sfixed32":
		return fmt.Sprintf("%s = protowire.AppendFixed32(%s, uint32(%s))", b, b, v)
	case "float":
		return fmt.Sprintf("%s = protowire.AppendFixed32(%s, math.Float32bits(%s))", b, b, v)
	case "fixed64", "sfixed64":
		return fmt.Sprintf("%s = protowire.AppendFixed64(%s, uint64(%s))", b, b, v)
	case "double":
		return fmt.Sprintf("%s = protowire.AppendFixed64(%s, math.Float64bits(%s))", b, b, v)
	case "string":
		return fmt.Sprintf("%s = protowire.AppendString(%s, %s)", b, b, v)
	case "bytes":
		return fmt.Sprintf("%s = protowire.AppendBytes(%s, %s)", b, b, v)
	case "message":
		if f.MsgName != "" {
			return fmt.Sprintf("%s = protowire.AppendBytes(%s, vhSpec_%s(nil, %s))", b, b, f.MsgName, v)
		}
		return fmt.Sprintf("%s = protowire.AppendBytes(%s, nil) // foreign message: only nil/empty are built", b, b)
	}
	panic("appendVal " + f.Kind)
}

func presentCond(f *Field, v string) string {
	switch f.Kind {
	case "bool":
		return v
	case "float":
		return fmt.Sprintf("math.Float32bits(%s) != 0", v)
	case "double":
		return fmt.Sprintf("math.Float64bits(%s) != 0", v)
	case "string", "bytes":
		return fmt.Sprintf("len(%s) > 0", v)
	case "message":
		return v + " != nil"
	}
	return v + " != 0"
}

func lessExpr(f *Field, a, b string) string {
	if f.Kind == "bool" {
		return fmt.Sprintf("(!%s && %s)", a, b)
	}
	return fmt.Sprintf("%s < %s", a, b)
}

// ---------- spec encoder ----------

func (g *gen) specField(f *Field, x string) {
	tag := fmt.Sprintf("protowire.AppendTag(b, %d, protowire.%sType)", f.Number, wireKind(f))
	acc := x + "." + f.GoName
	switch f.Card {
	case "singular":
		g.p("\tif %s {", presentCond(f, acc))
		g.p("\t\tb = %s", tag)
		g.p("\t\t%s", g.appendVal(f, "b", acc))
		g.p("\t}")
	case "repeated":
		if f.Packed && isPackable(f) {
			g.p("\tif len(%s) > 0 {", acc)
			g.p("\t\tvar pb []byte")
			g.p("\t\tfor _, e := range %s {", acc)
			g.p("\t\t\t%s", g.appendVal(f, "pb", "e"))
			g.p("\t\t}")
			g.p("\t\tb = protowire.AppendTag(b, %d, protowire.BytesType)", f.Number)
			g.p("\t\tb = protowire.AppendBytes(b, pb)")
			g.p("\t}")
		} else {
			g.p("\tfor _, e := range %s {", acc)
			g.p("\t\tb = %s", tag)
			g.p("\t\t%s", g.appendVal(f, "b", "e"))
			g.p("\t}")
		}
	case "map":
		g.p("\tif len(%s) > 0 {", acc)
		g.p("\t\tkeys := make([]%s, 0, len(%s))", f.Key.GoType, acc)
		g.p("\t\tfor k := range %s {", acc)
		g.p("\t\t\tkeys = append(keys, k)")
		g.p("\t\t}")
		g.p("\t\tfor i := 1; i < len(keys); i++ {")
		g.p("\t\t\tfor j := i; j > 0 && %s; j-- {", lessExpr(f.Key, "keys[j]", "keys[j-1]"))
		g.p("\t\t\t\tkeys[j], keys[j-1] = keys[j-1], keys[j]")
		g.p("\t\t\t}")
		g.p("\t\t}")
		g.p("\t\tfor _, k := range keys {")
		g.p("\t\t\tv := %s[k]", acc)
		g.p("\t\t\tvar eb []byte")
		g.p("\t\t\teb = protowire.AppendTag(eb, 1, protowire.%sType)", wireKind(f.Key))
		g.p("\t\t\t%s", g.appendVal(f.Key, "eb", "k"))
		g.p("\t\t\teb = protowire.AppendTag(eb, 2, protowire.%sType)", wireKind(f.Val))
		g.p("\t\t\t%s", g.appendVal(f.Val, "eb", "v"))
		g.p("\t\t\tb = protowire.AppendTag(b, %d, protowire.BytesType)", f.Number)
		g.p("\t\t\tb = protowire.AppendBytes(b, eb)")
		g.p("\t\t}")
		g.p("\t}")
	}
}

func (g *gen) specMessage(m *Message) {
	g.p("// vhSpec_%s is the specification encoder: the deterministic reference wire encoding", m.GoName)
	g.p("// (non-oneof fields by number, oneofs in declaration order, unknown fields last).")
	g.p("func vhSpec_%s(b []byte, x *%s) []byte {", m.GoName, m.GoName)
	g.p("\tif x == nil {")
	g.p("\t\treturn b")
	g.p("\t}")
	fs := append([]*Field{}, m.Fields...)
	sort.Slice(fs, func(i, j int) bool { return fs[i].Number < fs[j].Number })
	for _, f := range fs {
		g.specField(f, "x")
	}
	for _, o := range m.Oneofs {
		g.p("\tswitch o := x.%s.(type) {", o.GoName)
		for _, f := range o.Members {
			g.p("\tcase *%s:", f.Wrapper)
			g.p("\t\tb = protowire.AppendTag(b, %d, protowire.%sType)", f.Number, wireKind(f))
			g.p("\t\t%s", g.appendVal(f, "b", "o."+f.WField))
		}
		g.p("\t}")
	}
	g.p("\tb = append(b, x.unknownFields...)")
	g.p("\treturn b")
	g.p("}")
	g.p("")
}

// ---------- builders ----------

func (g *gen) nestedValue(f *Field, name string, idx string) []string {
	// statements computing `v` of the scalar/message type (symbolic). For containers only
	// the first element/entry carries a fully symbolic nested message; later ones are
	// empty or hold fixed representative values (keeps the path count linear).
	if f.Kind == "message" {
		if f.MsgName == "" {
			return []string{fmt.Sprintf("var v %s // foreign message type: nil only", scalarGo(f))}
		}
		return []string{
			fmt.Sprintf("var v *%s", f.MsgName),
			fmt.Sprintf("switch {"),
			fmt.Sprintf("case d > 0 && %s == 0:", idx),
			fmt.Sprintf("\tif vhChoice(%s+\".full\", 2) == 1 {", name),
			fmt.Sprintf("\t\tv = vhAny_%s(%s, d-1)", f.MsgName, name),
			"\t} else {",
			fmt.Sprintf("\t\tv = &%s{}", f.MsgName),
			"\t}",
			fmt.Sprintf("case %s == 1:", idx),
			fmt.Sprintf("\tv = &%s{}", f.MsgName),
			fmt.Sprintf("\tvhFill_%s(v)", f.MsgName),
			"default:",
			fmt.Sprintf("\tv = &%s{}", f.MsgName),
			"}",
		}
	}
	return []string{fmt.Sprintf("v := %s", g.symExpr(f, name, -1))}
}

func (g *gen) buildField(m *Message, f *Field) {
	g.p("func vhBuild_%s_%s(x *%s, p string, d int) {", m.GoName, f.GoName+wrapSuffix(f), m.GoName)
	switch f.Card {
	case "singular":
		switch f.Kind {
		case "message":
			if f.MsgName == "" {
				g.p("\t// foreign message type: left nil")
			} else {
				g.p("\tswitch vhChoice(p+\".msg\", 3) {")
				g.p("\tcase 1:")
				g.p("\t\tx.%s = &%s{}", f.GoName, f.MsgName)
				g.p("\tcase 2:")
				g.p("\t\tif d > 0 {")
				g.p("\t\t\tx.%s = vhAny_%s(p, d-1)", f.GoName, f.MsgName)
				g.p("\t\t}")
				g.p("\t}")
			}
		case "bytes":
			g.p("\tif vhChoice(p+\".nonnil\", 2) == 1 {")
			g.p("\t\tx.%s = %s", f.GoName, g.symExpr(f, "p", -1))
			g.p("\t}")
		default:
			g.p("\tx.%s = %s", f.GoName, g.symExpr(f, "p", -1))
		}
	case "repeated":
		g.p("\tn := vhChoice(p+\".n\", %d)", g.listN+2)
		g.p("\tif n == %d {", g.listN+1)
		g.p("\t\tx.%s = %s{}", f.GoName, f.GoType)
		g.p("\t\treturn")
		g.p("\t}")
		g.p("\tfor i := 0; i < n; i++ {")
		for _, s := range g.nestedValue(f, "vhIdx(p, i)", "i") {
			g.p("\t\t%s", s)
		}
		g.p("\t\tx.%s = append(x.%s, v)", f.GoName, f.GoName)
		g.p("\t}")
	case "map":
		g.p("\tn := vhChoice(p+\".n\", %d)", g.mapN+2)
		g.p("\tif n == %d {", g.mapN+1)
		g.p("\t\tx.%s = %s{}", f.GoName, f.MapGo)
		g.p("\t\treturn")
		g.p("\t}")
		g.p("\tif n > 0 {")
		g.p("\t\tx.%s = %s{}", f.GoName, f.MapGo)
		g.p("\t}")
		g.p("\tvar keys []%s", f.Key.GoType)
		g.p("\tfor i := 0; i < n; i++ {")
		g.p("\t\tk := %s", g.symExpr(f.Key, "vhIdx(p+\".k\", i)", g.keyLen))
		if g.tier != "thorough" {
			// quick tier: integer keys in a single-varint-length window (values keep their full
			// domain); the full key domain is the thorough tier's
			switch f.Key.Kind {
			case "int32", "int64", "sint32", "sint64":
				g.p("\t\tvhAssume(k >= -64 && k <= 63)")
			case "uint32", "uint64":
				g.p("\t\tvhAssume(k <= 127)")
			}
		}
		g.p("\t\tfor _, o := range keys {")
		g.p("\t\t\tvhAssume(k != o)")
		g.p("\t\t}")
		g.p("\t\tkeys = append(keys, k)")
		for _, s := range g.nestedValue(f.Val, "vhIdx(p+\".v\", i)", "(i+n-1)") {
			g.p("\t\t%s", s)
		}
		if g.tier != "thorough" && f.Val.Kind == "sint32" {
			// measured: 32-bit zig-zag map values cost z3 ~0.3 s per query (15 min per harness);
			// the quick tier keeps them in a one-byte window, the thorough tier has the full domain
			g.p("\t\tvhAssume(v >= -64 && v <= 63)")
		}
		g.p("\t\tx.%s[k] = v", f.GoName)
		g.p("\t}")
	case "oneof":
		for _, s := range g.nestedValue(f, "p", "0") {
			g.p("\t%s", s)
		}
		g.p("\tx.%s = &%s{%s: v}", f.Oneof.GoName, f.Wrapper, f.WField)
	}
	g.p("}")
	g.p("")
}

func wrapSuffix(f *Field) string { return "" }

// pickNested chooses the fields offered as the active field of a nested message.
func (g *gen) pickNested(m *Message) []*Field {
	all := m.All
	if len(all) <= g.pick {
		return all
	}
	// one representative per (kind class, cardinality), rotated by seed
	var out []*Field
	seen := map[string]bool{}
	start := g.seed % len(all)
	for i := 0; i < len(all) && len(out) < g.pick; i++ {
		f := all[(start+i*7)%len(all)]
		key := wireKind(f) + "/" + f.Card
		if seen[key] {
			continue
		}
		seen[key] = true
		out = append(out, f)
	}
	return out
}

// orderBuild: exactly two entries with symbolic distinct keys and fixed values
func (g *gen) orderBuild(m *Message, f *Field) {
	g.orderBuildV(m, f, false)
	g.orderBuildV(m, f, true)
}

// small: integer keys are non-negative one-byte varints in every tier (used where the map
// sits below another message and only "sorted at all" is in question; the key domain,
// signed order included, is the business of the top-level _order harnesses)
func (g *gen) orderBuildV(m *Message, f *Field, small bool) {
	name := "vhOrderBuild"
	if small {
		name = "vhOrderBuildSmall"
	}
	g.p("func %s_%s_%s(x *%s, p string) {", name, m.GoName, f.GoName, m.GoName)
	g.p("\tx.%s = %s{}", f.GoName, f.MapGo)
	g.p("\tk0 := %s", g.symExpr(f.Key, "p+\".k0\"", g.keyLen))
	g.p("\tk1 := %s", g.symExpr(f.Key, "p+\".k1\"", g.keyLen))
	g.p("\tvhAssume(k0 != k1)")
	if small {
		switch f.Key.Kind {
		case "int32", "int64", "sint32", "sint64":
			g.p("\tvhAssume(k0 >= 0 && k0 <= 63 && k1 >= 0 && k1 <= 63)")
		case "uint32", "uint64":
			g.p("\tvhAssume(k0 <= 127 && k1 <= 127)")
		}
	} else if g.tier != "thorough" {
		switch f.Key.Kind {
		case "int32", "int64", "sint32", "sint64":
			g.p("\tvhAssume(k0 >= -64 && k0 <= 63 && k1 >= -64 && k1 <= 63)")
		case "uint32", "uint64":
			g.p("\tvhAssume(k0 <= 127 && k1 <= 127)")
		}
	}
	if f.Val.Kind == "message" && f.Val.MsgName != "" {
		g.p("\tx.%s[k0] = &%s{}", f.GoName, f.Val.MsgName)
		g.p("\tv1 := &%s{}", f.Val.MsgName)
		g.p("\tvhFill_%s(v1)", f.Val.MsgName)
		g.p("\tx.%s[k1] = v1", f.GoName)
	} else if f.Val.Kind == "message" {
		g.p("\tx.%s[k0] = nil", f.GoName)
		g.p("\tx.%s[k1] = nil", f.GoName)
	} else {
		g.p("\tx.%s[k0] = %s", f.GoName, g.concExpr(f.Val, 1))
		g.p("\tx.%s[k1] = %s", f.GoName, g.concExpr(f.Val, 2))
	}
	g.p("}")
	g.p("")
}

func (g *gen) anyMessage(m *Message) {
	fs := g.pickNested(m)
	g.p("// vhAny_%s builds a %s with one symbolic active field (or unknown fields).", m.GoName, m.GoName)
	g.p("func vhAny_%s(p string, d int) *%s {", m.GoName, m.GoName)
	g.p("\tx := &%s{}", m.GoName)
	nopt := len(fs) + 1
	if g.lightAny {
		nopt = len(fs)
	}
	g.p("\tswitch vhChoice(p+\".field\", %d) {", nopt)
	for i, f := range fs {
		g.p("\tcase %d:", i)
		g.p("\t\tvhBuild_%s_%s(x, p+\".%s\", d)", m.GoName, f.GoName, f.GoName)
	}
	if !g.lightAny {
		g.p("\tcase %d:", len(fs))
		g.p("\t\tx.unknownFields = vhUnknown_%s(p + \".unk\")", m.GoName)
	}
	g.p("\t}")
	g.p("\treturn x")
	g.p("}")
	g.p("")
	// unknown record builder
	g.p("// vhUnknown_%s builds one well-formed record whose number is not in the schema.", m.GoName)
	g.p("func vhUnknown_%s(p string) []byte {", m.GoName)
	g.p("\tnum := vhI32(p + \".num\")")
	g.p("\tvhAssume(num >= 1)")
	g.p("\tvhAssume(num <= 536870911)")
	for _, f := range m.All {
		g.p("\tvhAssume(num != %d)", f.Number)
	}
	g.p("\tvar b []byte")
	g.p("\tswitch vhChoice(p+\".wt\", 4) {")
	g.p("\tcase 0:")
	g.p("\t\tb = protowire.AppendTag(b, protowire.Number(num), protowire.VarintType)")
	g.p("\t\tb = protowire.AppendVarint(b, vhU64(p+\".v\"))")
	g.p("\tcase 1:")
	g.p("\t\tb = protowire.AppendTag(b, protowire.Number(num), protowire.Fixed32Type)")
	g.p("\t\tb = protowire.AppendFixed32(b, vhU32(p+\".v\"))")
	g.p("\tcase 2:")
	g.p("\t\tb = protowire.AppendTag(b, protowire.Number(num), protowire.Fixed64Type)")
	g.p("\t\tb = protowire.AppendFixed64(b, vhU64(p+\".v\"))")
	g.p("\tcase 3:")
	g.p("\t\tb = protowire.AppendTag(b, protowire.Number(num), protowire.BytesType)")
	g.p("\t\tb = protowire.AppendBytes(b, vhBytes(p+\".v\", %d))", g.strLen)
	g.p("\t}")
	g.p("\treturn b")
	g.p("}")
	g.p("")
}

// fillMessage sets every field to a fixed non-default representative (family H2).
func (g *gen) fillMessage(m *Message) {
	g.p("func vhFill_%s(x *%s) {", m.GoName, m.GoName)
	for i, f := range m.Fields {
		switch f.Card {
		case "singular":
			g.p("\tx.%s = %s", f.GoName, g.concExpr(f, i%5))
		case "repeated":
			if f.Kind == "message" && f.MsgName == "" {
				continue
			}
			g.p("\tx.%s = %s{%s, %s}", f.GoName, f.GoType, g.concExpr(f, i%5), g.concExpr(f, (i+1)%5))
		case "map":
			if f.Val.Kind == "message" && f.Val.MsgName == "" {
				continue
			}
			g.p("\tx.%s = %s{%s: %s}", f.GoName, f.MapGo, g.concExpr(f.Key, i%5), g.concExpr(f.Val, i%5))
		}
	}
	for _, o := range m.Oneofs {
		if len(o.Members) > 0 {
			f := o.Members[0]
			g.p("\tx.%s = &%s{%s: %s}", o.GoName, f.Wrapper, f.WField, g.concExpr(f, 1))
		}
	}
	g.p("}")
	g.p("")
}

// fill2Message: like vhFill but every map holds several entries whose keys exercise the
// reference key order (negative and positive numbers, both booleans, prefix-related
// strings); used by the native validation of the specification encoder.
func (g *gen) fill2Message(m *Message) {
	g.p("func vhFill2_%s(x *%s) {", m.GoName, m.GoName)
	g.p("\tvhFill_%s(x)", m.GoName)
	for i, f := range m.Fields {
		if f.Card != "map" || (f.Val.Kind == "message" && f.Val.MsgName == "") {
			continue
		}
		var keys []string
		switch f.Key.Kind {
		case "bool":
			keys = []string{"true", "false"}
		case "string":
			keys = []string{"\"b\"", "\"ab\"", "\"a\"", "\"\"", "\"\u00e9\""}
		case "uint32", "uint64", "fixed32", "fixed64":
			keys = []string{f.Key.GoType + "(300)", f.Key.GoType + "(5)", f.Key.GoType + "(4000000000)"}
		default:
			keys = []string{f.Key.GoType + "(-3)", f.Key.GoType + "(7)", f.Key.GoType + "(-200)", f.Key.GoType + "(0)"}
		}
		g.p("\tx.%s = %s{}", f.GoName, f.MapGo)
		for k, key := range keys {
			g.p("\tx.%s[%s] = %s", f.GoName, key, g.concExpr(f.Val, (i+k)%5))
		}
	}
	g.p("}")
	g.p("")
}

// ---------- equality ----------

func (g *gen) eqVal(f *Field, id, a, b string, ind string) {
	switch f.Kind {
	case "float":
		g.p("%svhAssert(%s, math.Float32bits(%s) == math.Float32bits(%s))", ind, id, a, b)
	case "double":
		g.p("%svhAssert(%s, math.Float64bits(%s) == math.Float64bits(%s))", ind, id, a, b)
	case "string":
		g.p("%svhAssertStrEq(%s, %s, %s)", ind, id, a, b)
	case "bytes":
		g.p("%svhAssertBytesEq(%s, %s, %s)", ind, id, a, b)
	case "message":
		if f.MsgName != "" {
			g.p("%svhAssertEq_%s(%s, %s, %s)", ind, f.MsgName, id, a, b)
		} else {
			g.p("%svhAssert(%s, (%s == nil) == (%s == nil))", ind, id, a, b)
		}
	default:
		g.p("%svhAssert(%s, %s == %s)", ind, id, a, b)
	}
}

func (g *gen) eqMessage(m *Message) {
	g.p("// vhAssertEq_%s asserts proto.Equal-style equality field by field (floats by bit pattern).", m.GoName)
	g.p("func vhAssertEq_%s(id string, x, y *%s) {", m.GoName, m.GoName)
	g.p("\tif x == nil || y == nil {")
	g.p("\t\t// a nil message equals an empty one only if the other is also unpopulated; builders never mix them")
	g.p("\t\tvhAssert(id+\".nil\", (x == nil) == (y == nil))")
	g.p("\t\treturn")
	g.p("\t}")
	for _, f := range m.Fields {
		id := fmt.Sprintf("id+\".%s\"", f.GoName)
		switch f.Card {
		case "singular":
			if f.Kind == "message" {
				g.p("\tvhAssert(%s+\".present\", (x.%s == nil) == (y.%s == nil))", id, f.GoName, f.GoName)
				g.p("\tif x.%s != nil && y.%s != nil {", f.GoName, f.GoName)
				g.eqVal(f, id, "x."+f.GoName, "y."+f.GoName, "\t\t")
				g.p("\t}")
			} else {
				g.eqVal(f, id, "x."+f.GoName, "y."+f.GoName, "\t")
			}
		case "repeated":
			g.p("\tvhAssert(%s+\".count\", len(x.%s) == len(y.%s))", id, f.GoName, f.GoName)
			g.p("\tif len(x.%s) == len(y.%s) {", f.GoName, f.GoName)
			g.p("\t\tfor i := range x.%s {", f.GoName)
			g.eqVal(f, id, "x."+f.GoName+"[i]", "y."+f.GoName+"[i]", "\t\t\t")
			g.p("\t\t}")
			g.p("\t}")
		case "map":
			g.p("\tvhAssert(%s+\".count\", len(x.%s) == len(y.%s))", id, f.GoName, f.GoName)
			g.p("\tfor k, xv := range x.%s {", f.GoName)
			g.p("\t\tyv, ok := y.%s[k]", f.GoName)
			g.p("\t\tvhAssert(%s+\".haskey\", ok)", id)
			g.p("\t\tif ok {")
			g.eqVal(f.Val, id, "xv", "yv", "\t\t\t")
			g.p("\t\t}")
			g.p("\t}")
		}
	}
	for _, o := range m.Oneofs {
		id := fmt.Sprintf("id+\".%s\"", o.GoName)
		g.p("\tswitch xo := x.%s.(type) {", o.GoName)
		g.p("\tcase nil:")
		g.p("\t\tvhAssert(%s+\".unset\", y.%s == nil)", id, o.GoName)
		for _, f := range o.Members {
			g.p("\tcase *%s:", f.Wrapper)
			g.p("\t\tyo, ok := y.%s.(*%s)", o.GoName, f.Wrapper)
			g.p("\t\tvhAssert(%s+\".member\", ok)", id)
			g.p("\t\tif ok {")
			g.eqVal(f, id, "xo."+f.WField, "yo."+f.WField, "\t\t\t")
			g.p("\t\t}")
		}
		g.p("\t}")
	}
	g.p("\tvhAssertBytesEq(id+\".unknown\", x.unknownFields, y.unknownFields)")
	g.p("}")
	g.p("")
}

// ---------- common codec drivers ----------

func (g *gen) drivers(m *Message) {
	n := m.GoName
	g.p("func vhFlags(det bool) protoiface.MarshalInputFlags {")
	g.p("\tif det {")
	g.p("\t\treturn protoiface.MarshalDeterministic")
	g.p("\t}")
	g.p("\treturn 0")
	g.p("}")
	_ = n
}

func (g *gen) driversOnce() {
	g.p("// vhFlags yields marshal flags with a symbolic Deterministic bit (no fork here: the")
	g.p("// bit only causes a branch where the code under test actually reads it).")
	g.p("func vhFlags(name string) protoiface.MarshalInputFlags {")
	g.p("\treturn protoiface.MarshalInputFlags(vhU8(name) & 1)")
	g.p("}")
	g.p("")
	g.p("// vhPrefix yields the caller buffer for MarshalAppend: nil, empty, or 2 symbolic bytes")
	g.p("// with no spare capacity or with 64 spare bytes.")
	g.p("func vhPrefix() []byte {")
	g.p("\tswitch vhChoice(\"prefix\", 4) {")
	g.p("\tcase 1:")
	g.p("\t\treturn []byte{}")
	g.p("\tcase 2:")
	g.p("\t\treturn []byte{vhU8(\"pre0\"), vhU8(\"pre1\")}")
	g.p("\tcase 3:")
	g.p("\t\tb := make([]byte, 2, 66)")
	g.p("\t\tb[0], b[1] = vhU8(\"pre0\"), vhU8(\"pre1\")")
	g.p("\t\treturn b")
	g.p("\t}")
	g.p("\treturn nil")
	g.p("}")
	g.p("")
}

func (g *gen) codecDrivers(m *Message) {
	n := m.GoName
	// C04
	g.p("func vhC04_%s(x *%s, prefix []byte) {", n, n)
	g.p("\tflags := vhFlags(\"det\")")
	g.p("\tmsg := x.ProtoReflect()")
	g.p("\tmethods := msg.ProtoMethods()")
	g.p("\tvhMapOrderAll(true)")
	g.p("\tsz := methods.Size(protoiface.SizeInput{Message: msg, Flags: flags}).Size")
	g.p("\tvar pre0, pre1 byte")
	g.p("\tif len(prefix) == 2 {")
	g.p("\t\tpre0, pre1 = prefix[0], prefix[1]")
	g.p("\t}")
	g.p("\tout, err := methods.Marshal(protoiface.MarshalInput{Message: msg, Buf: prefix, Flags: flags})")
	g.p("\tvhMapOrderAll(false)")
	g.p("\tvhAssert(\"marshal.noerr\", err == nil)")
	g.p("\tvhAssert(\"size.eq.marshal\", sz == len(out.Buf)-len(prefix))")
	g.p("\tspec := vhSpec_%s(nil, x)", n)
	g.p("\tvhAssert(\"size.eq.reference\", sz == len(spec))")
	g.p("\tif len(prefix) == 2 && len(out.Buf) >= 2 {")
	g.p("\t\tvhAssert(\"prefix.kept\", out.Buf[0] == pre0 && out.Buf[1] == pre1)")
	g.p("\t}")
	g.p("\tif flags&protoiface.MarshalDeterministic != 0 && len(out.Buf) >= len(prefix) {")
	g.p("\t\tvhAssertBytesEq(\"append.encoding\", out.Buf[len(prefix):], spec)")
	g.p("\t}")
	g.p("}")
	g.p("")
	// C02
	g.p("func vhC02_%s(x *%s) {", n, n)
	g.p("\tmsg := x.ProtoReflect()")
	g.p("\tmethods := msg.ProtoMethods()")
	g.p("\tvhMapOrderAll(true)")
	g.p("\tout, err := methods.Marshal(protoiface.MarshalInput{Message: msg, Flags: protoiface.MarshalDeterministic})")
	g.p("\tvhMapOrderAll(false)")
	g.p("\tvhAssert(\"marshal.noerr\", err == nil)")
	g.p("\tspec := vhSpec_%s(nil, x)", n)
	g.p("\tvhAssertBytesEq(\"reference\", out.Buf, spec)")
	g.p("\tif !vhSymbolic() {")
	g.p("\t\t// native replay: the executor took every map iteration order, Go draws one per range")
	g.p("\t\t// statement (for a small map the reversed one with probability 1/8): repeat")
	g.p("\t\tfor i := 0; i < 64; i++ {")
	g.p("\t\t\to2, _ := methods.Marshal(protoiface.MarshalInput{Message: msg, Flags: protoiface.MarshalDeterministic})")
	g.p("\t\t\tvhAssertBytesEq(\"reference\", o2.Buf, spec)")
	g.p("\t\t}")
	g.p("\t}")
	g.p("}")
	g.p("")
	// C01
	g.p("func vhC01_%s(x *%s) {", n, n)
	g.p("\tvhSetLoopBound(400) // the record loop runs once per populated field")
	g.p("\tmsg := x.ProtoReflect()")
	g.p("\tout, err := msg.ProtoMethods().Marshal(protoiface.MarshalInput{Message: msg, Flags: vhFlags(\"det\")})")
	g.p("\tvhAssert(\"marshal.noerr\", err == nil)")
	g.p("\ty := &%s{}", n)
	g.p("\tym := y.ProtoReflect()")
	g.p("\t_, uerr := ym.ProtoMethods().Unmarshal(protoiface.UnmarshalInput{Message: ym, Buf: out.Buf, Depth: 10000})")
	g.p("\tvhAssert(\"unmarshal.noerr\", uerr == nil)")
	g.p("\tvhAssertEq_%s(\"rt\", x, y)", n)
	g.p("}")
	g.p("")
}

// harnessPerField emits VH_<prop>_<Msg>_<Field> and the H2 variant.
// wantH2: thorough = every field; quick = the first field of each (wire kind, cardinality) class per message
func (g *gen) wantH2(prop string, m *Message, f *Field) bool {
	big := len(m.All) > 30
	if g.tier == "thorough" && !big {
		return true
	}
	if g.tier != "thorough" && big {
		return false // every other field populated in a 100-field message: minutes per harness
	}
	if f.Card == "map" || (f.Card == "repeated" && f.Kind != "message") {
		return false
	}
	if prop == "C01" {
		// a round trip re-reads every populated field from a buffer whose offsets are symbolic
		// (the active field's encoded length): each of the ~25..100 equality assertions per
		// path is a separate solver query - 15+ minutes per harness (measured). Interference
		// with populated neighbours is covered for C01 by _unknownFields_h2 and __library
		// (fully populated messages, concrete offsets) and per field by C02/C04's H2 family.
		return false
	}
	if g.h2seen == nil {
		g.h2seen = map[string]bool{}
	}
	k := prop + "/" + m.GoName + "/" + wireKind(f) + "/" + f.Card
	if g.h2seen[k] {
		return false
	}
	g.h2seen[k] = true
	return true
}

func (g *gen) harnessPerField(prop string, m *Message, f *Field, h2 bool) {
	n := m.GoName
	h2 = h2 && g.wantH2(prop, m, f)
	depth := 1
	if prop == "C01" && f.Card == "map" && f.Val.Kind == "message" {
		depth = 0 // map values: empty or fixed; the value type has its own round-trip harnesses
	}
	g.p("func VH_%s_%s_%s() {", prop, n, f.GoName)
	g.p("\tx := &%s{}", n)
	g.p("\tvhBuild_%s_%s(x, \"a\", %d)", n, f.GoName, depth)
	g.p("\tvh%s_%s(x%s)", prop, n, extraArg(prop, "[]byte{vhU8(\"pre0\"), vhU8(\"pre1\")}"))
	g.p("}")
	g.p("")
	if h2 {
		g.p("func VH_%s_%s_%s_h2() {", prop, n, f.GoName)
		g.p("\tx := &%s{}", n)
		g.p("\tvhFill_%s(x)", n)
		if f.Card == "oneof" {
			g.p("\tx.%s = nil", f.Oneof.GoName)
		} else {
			g.p("\tx.%s = %s", f.GoName, zeroLit(f))
		}
		g.p("\tvhBuild_%s_%s(x, \"a\", 0)", n, f.GoName)
		g.p("\tvh%s_%s(x%s)", prop, n, extraArg(prop, "nil"))
		g.p("}")
		g.p("")
	}
}

func zeroLit(f *Field) string {
	if f.Card != "singular" {
		return "nil"
	}
	switch f.Kind {
	case "bool":
		return "false"
	case "string":
		return "\"\""
	case "bytes", "message":
		return "nil"
	}
	return "0"
}

func (g *gen) harnessUnknown(prop string, m *Message) {
	n := m.GoName
	g.p("func VH_%s_%s_unknownFields() {", prop, n)
	g.p("\tx := &%s{}", n)
	g.p("\tx.unknownFields = vhUnknown_%s(\"u\")", n)
	g.p("\tvh%s_%s(x%s)", prop, n, extraArg(prop, "nil"))
	g.p("}")
	g.p("")
	g.p("func VH_%s_%s_empty() {", prop, n)
	g.p("\tx := &%s{}", n)
	g.p("\tvh%s_%s(x%s)", prop, n, extraArg(prop, "vhPrefix()"))
	g.p("}")
	g.p("")
	if !(len(m.All) > 30 && g.tier != "thorough" && prop == "C01") {
		g.p("// unknown fields together with every known field (incl. a selected oneof member) populated")
		g.p("func VH_%s_%s_unknownFields_h2() {", prop, n)
		g.p("\tx := &%s{}", n)
		g.p("\tvhFill_%s(x)", n)
		g.p("\tx.unknownFields = []byte{0x80, 0xa4, 0x3c, 0x07, 0xfa, 0xff, 0xff, 0xff, 0x0f, 0x01, 0x7a} // field 123456 varint 7; field 536870911 bytes \"z\"")
		g.p("\tvh%s_%s(x%s)", prop, n, extraArg(prop, "nil"))
		g.p("}")
		g.p("")
	}
	if prop == "C04" {
		for _, f := range m.All {
			isMapMsg := f.Card == "map" && f.Val.Kind == "message" && f.Val.MsgName != ""
			isRepMsg := f.Card == "repeated" && f.Kind == "message" && f.MsgName != ""
			if !isMapMsg && !isRepMsg {
				continue
			}
			g.p("// nil nested values (a nil map value / nil list element): size and marshal agree and do not panic")
			g.p("func VH_C04_%s_%s_nilvalue() {", n, f.GoName)
			g.p("\tx := &%s{}", n)
			if isMapMsg {
				g.p("\tk := %s", g.symExpr(f.Key, "\"k\"", g.keyLen))
				g.p("\tx.%s = %s{k: nil}", f.GoName, f.MapGo)
			} else {
				g.p("\tx.%s = %s{nil}", f.GoName, f.GoType)
			}
			g.p("\tflags := vhFlags(\"det\")")
			g.p("\tmsg := x.ProtoReflect()")
			g.p("\tsz := msg.ProtoMethods().Size(protoiface.SizeInput{Message: msg, Flags: flags}).Size")
			g.p("\tout, err := msg.ProtoMethods().Marshal(protoiface.MarshalInput{Message: msg, Flags: flags})")
			g.p("\tvhAssert(\"marshal.noerr\", err == nil)")
			g.p("\tvhAssert(\"size.eq.marshal\", sz == len(out.Buf))")
			g.p("}")
			g.p("")
		}
	}
	if prop == "C02" || prop == "C04" {
		for _, f := range m.All {
			if f.Card != "map" {
				continue
			}
			g.p("// two map entries with symbolic keys: entry ORDER against the reference key order")
			g.p("func VH_%s_%s_%s_order() {", prop, n, f.GoName)
			g.p("\tx := &%s{}", n)
			g.p("\tvhOrderBuild_%s_%s(x, \"a\")", n, f.GoName)
			g.p("\tvh%s_%s(x%s)", prop, n, extraArg(prop, "nil"))
			g.p("}")
			g.p("")
		}
	}
	if prop == "C02" {
		// a two-entry map one or two levels down, in every container shape: the bytes of the
		// whole message against the reference encoder (Deterministic has to reach every
		// nested marshal call)
		type hop struct {
			c  *Field
			tn string
		}
		hopsOf := func(mm *Message) []hop {
			var out []hop
			for _, c := range mm.All {
				tn := ""
				switch {
				case c.Card == "map" && c.Val.Kind == "message":
					tn = c.Val.MsgName
				case c.Kind == "message" && c.Card != "map":
					tn = c.MsgName
				}
				if tn != "" {
					out = append(out, hop{c, tn})
				}
			}
			return out
		}
		firstMap := func(mm *Message) *Field {
			for _, f := range mm.All {
				if f.Card == "map" {
					return f
				}
			}
			return nil
		}
		attach := func(parent string, c *Field, child string) {
			switch c.Card {
			case "singular":
				g.p("\t%s.%s = %s", parent, c.GoName, child)
			case "repeated":
				g.p("\t%s.%s = %s{%s}", parent, c.GoName, c.GoType, child)
			case "oneof":
				g.p("\t%s.%s = &%s{%s: %s}", parent, c.Oneof.GoName, c.Wrapper, c.WField, child)
			case "map":
				g.p("\t{")
				g.p("\t\tvar zk %s", c.Key.GoType)
				g.p("\t\t%s.%s = %s{zk: %s}", parent, c.GoName, c.MapGo, child)
				g.p("\t}")
			}
		}
		for _, h1 := range hopsOf(m) {
			if g.tier != "thorough" && h1.c.Card != "map" && h1.c.Card != "oneof" {
				// quick tier: the two shapes with their own marshal code (map-value closure, oneof
				// switch ahead of the field loop); singular and repeated share options.Marshal
				continue
			}
			t1 := g.s.ByName[h1.tn]
			if mf := firstMap(t1); mf != nil {
				g.p("// a two-entry map inside the message held by %s (%s)", h1.c.GoName, h1.c.Card)
				g.p("func VH_C02_%s_via_%s_order() {", n, h1.c.GoName)
				g.p("\tx := &%s{}", n)
				g.p("\tt := &%s{}", h1.tn)
				g.p("\tvhOrderBuildSmall_%s_%s(t, \"a\")", h1.tn, mf.GoName)
				attach("x", h1.c, "t")
				g.p("\tvhC02_%s(x)", n)
				g.p("}")
				g.p("")
				continue
			}
			for _, h2 := range hopsOf(t1) {
				t2 := g.s.ByName[h2.tn]
				mf := firstMap(t2)
				if mf == nil {
					continue
				}
				g.p("// a two-entry map two levels down: %s (%s) -> %s (%s)", h1.c.GoName, h1.c.Card, h2.c.GoName, h2.c.Card)
				g.p("func VH_C02_%s_via_%s_%s_order() {", n, h1.c.GoName, h2.c.GoName)
				g.p("\tx := &%s{}", n)
				g.p("\tt1 := &%s{}", h1.tn)
				g.p("\tt2 := &%s{}", h2.tn)
				g.p("\tvhOrderBuildSmall_%s_%s(t2, \"a\")", h2.tn, mf.GoName)
				attach("t1", h2.c, "t2")
				attach("x", h1.c, "t1")
				g.p("\tvhC02_%s(x)", n)
				g.p("}")
				g.p("")
				break
			}
		}
	}
	if prop == "C04" || prop == "C02" {
		for _, f := range m.All {
			if f.Card != "repeated" || !f.Packed || !isPackable(f) {
				continue
			}
			g.p("// long packed runs: the payload length crosses the 1-byte/2-byte varint boundary (127/128 bytes);")
			g.p("// elements are fixed one-byte values (or fixed-width), so the run length alone varies")
			elem := g.concExpr(f, 1)
			per := 1
			switch wireKind(f) {
			case "Fixed32":
				per = 4
			case "Fixed64":
				per = 8
			default:
				if f.Kind != "bool" {
					elem = scalarGo(f) + "(1)"
				}
			}
			base := 128/per - 1
			g.p("func VH_%s_%s_%s_long() {", prop, n, f.GoName)
			g.p("\tvhSetLoopBound(400)")
			g.p("\tx := &%s{}", n)
			g.p("\tcnt := %d + vhChoice(\"n\", 3)", base)
			g.p("\tfor i := 0; i < cnt; i++ {")
			g.p("\t\tx.%s = append(x.%s, %s)", f.GoName, f.GoName, elem)
			g.p("\t}")
			g.p("\tvh%s_%s(x%s)", prop, n, extraArg(prop, "nil"))
			g.p("}")
			g.p("")
		}
	}
	if prop == "C04" {
		g.p("// the same facts through the real protobuf-go entry points (proto.Size / MarshalOptions.MarshalAppend)")
		g.p("func VH_C04_%s__library() {", n)
		g.p("\tx := &%s{}", n)
		g.p("\tif vhChoice(\"filled\", 2) == 1 {")
		g.p("\t\tvhFill_%s(x)", n)
		g.p("\t}")
		g.p("\tdet := vhChoice(\"det\", 2) == 1")
		g.p("\tprefix := []byte{vhU8(\"pre0\")}")
		g.p("\tsz := proto.Size(x)")
		g.p("\tout, err := proto.MarshalOptions{Deterministic: det}.MarshalAppend(prefix, x)")
		g.p("\tvhAssert(\"marshal.noerr\", err == nil)")
		g.p("\tvhAssert(\"size.eq.marshal\", sz == len(out)-1)")
		g.p("\tspec := vhSpec_%s(nil, x)", n)
		g.p("\tvhAssert(\"size.eq.reference\", sz == len(spec))")
		g.p("\tif det && len(out) >= 1 {")
		g.p("\t\tvhAssertBytesEq(\"append.encoding\", out[1:], spec)")
		g.p("\t}")
		g.p("}")
		g.p("")
		g.p("// every caller-buffer shape, on a message with every field populated")
		g.p("func VH_C04_%s_prefix() {", n)
		g.p("\tx := &%s{}", n)
		if g.tier != "thorough" && len(m.All) > 30 {
			// quick tier, 100-field message: the buffer handling does not depend on how many
			// fields are populated, and the all-fields variant costs minutes of solver time
			for _, f := range m.Fields {
				if f.Card == "singular" && f.Kind != "message" {
					g.p("\tx.%s = %s", f.GoName, g.concExpr(f, 1))
					break
				}
			}
			g.p("\tx.unknownFields = []byte{0xf8, 0x7f, 0x01}")
		} else {
			g.p("\tvhFill_%s(x)", n)
		}
		g.p("\tvhC04_%s(x, vhPrefix())", n)
		g.p("}")
		g.p("")
	}
}

// CodecSource generates the whole harness file for the codec properties.
func (g *gen) CodecSource(props []string, msgs []*Message, h2 bool, fieldFilter func(m *Message, f *Field) bool) string {
	g.propTag = props[0]
	g.header()
	g.driversOnce()
	for _, m := range g.s.Msgs {
		g.specMessage(m)
		for _, f := range m.All {
			g.buildField(m, f)
		}
		g.anyMessage(m)
		g.fillMessage(m)
		g.fill2Message(m)
		g.eqMessage(m)
		g.codecDrivers(m)
		for _, f := range m.All {
			if f.Card == "map" {
				g.orderBuild(m, f)
			}
		}
	}
	for _, m := range msgs {
		for _, prop := range props {
			for _, f := range m.All {
				if fieldFilter != nil && !fieldFilter(m, f) {
					continue
				}
				g.harnessPerField(prop, m, f, h2)
			}
			g.harnessUnknown(prop, m)
		}
	}
	return g.sb.String()
}

func extraArg(prop, arg string) string {
	if prop == "C04" {
		return ", " + arg
	}
	return ""
}
