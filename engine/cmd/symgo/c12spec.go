package main

import (
	"fmt"
	"os"
	"path/filepath"
	"sort"
	"strings"

	"google.golang.org/protobuf/types/descriptorpb"
	"google.golang.org/protobuf/types/pluginpb"

	"symgo/sym"
)

// sourceFor returns the harness source generator for a generated-code property.
func sourceFor(prop, tier string) func(g *gen, msgs []*Message) string {
	ff := fieldFilterFor(tier)
	switch prop {
	case "C01", "C02", "C04":
		return func(g *gen, msgs []*Message) string { return g.CodecSource([]string{prop}, msgs, true, ff) }
	case "C03", "C14":
		return func(g *gen, msgs []*Message) string { return g.DecodeSource([]string{prop}, msgs, true, ff) }
	case "C06":
		return func(g *gen, msgs []*Message) string { return g.TotalSource(msgs, ff, 4) }
	case "C05", "C07":
		return func(g *gen, msgs []*Message) string { return g.MiscSource(prop, msgs, ff) }
	case "C08":
		return func(g *gen, msgs []*Message) string { return g.ReflectSource(msgs, ff) }
	case "C09", "C11", "C19":
		return func(g *gen, msgs []*Message) string { return g.ReflectAuxSource(prop, msgs, ff) }
	}
	panic("sourceFor " + prop)
}

func init() {
	specs["C12"] = func(tier string) (*Plan, error) {
		scratch, err := os.MkdirTemp("", "symgo-c12-")
		if err != nil {
			return nil, err
		}
		plan := &Plan{Cleanup: func() { os.RemoveAll(scratch) }}
		plan.Cfg = sym.Config{MaxLoop: 40, MaxPaths: 8000}
		plugin, err := buildPlugin(scratch)
		if err != nil {
			return plan, err
		}
		matrix := schemaMatrix()
		results := generateAll(plugin, matrix, "features=protoc+fast")
		modDir := filepath.Join(scratch, "mod")
		os.MkdirAll(modDir, 0o755)
		if err := writeScratchModule(modDir, results); err != nil {
			return plan, err
		}
		fail := func(schema, what, detail string) {
			plan.PipelineFailures = append(plan.PipelineFailures, &sym.Violation{Harness: "pipeline_" + schema, Qualified: "pipeline_" + schema, AssertID: what, Kind: "pipeline", Detail: detail})
		}
		var okPkgs []string
		modFiles := map[string]string{}
		if b, err := os.ReadFile(filepath.Join(modDir, "go.mod")); err == nil {
			modFiles["go.mod"] = string(b)
		}
		var pipelineLog []string
		for _, r := range results {
			if r.Err != "" {
				fail(r.Schema.Name, "generate", r.Err)
				pipelineLog = append(pipelineLog, r.Schema.Name+": generate FAILED: "+trunc(r.Err, 120))
				continue
			}
			if msg := goBuildPkg(modDir, r.Schema.Name); msg != "" {
				fail(r.Schema.Name, "compile", msg)
				pipelineLog = append(pipelineLog, r.Schema.Name+": compile FAILED: "+trunc(msg, 120))
				// remove the package so the rest of the module still loads
				os.RemoveAll(filepath.Join(modDir, r.Schema.Name))
				continue
			}
			okPkgs = append(okPkgs, r.Schema.Name)
			pipelineLog = append(pipelineLog, r.Schema.Name+": generated and compiled")
			for name, content := range r.Files {
				modFiles[strings.TrimPrefix(name, scratchMod+"/")] = content
			}
		}
		// requests the plugin must refuse or ignore
		{
			m := matrix[0]
			resp, err := runPlugin(plugin, &pluginpb.CodeGeneratorRequest{FileToGenerate: []string{m.File.GetName()}, Parameter: sp("features=protoc+nosuchfeature"), ProtoFile: []*descriptorpb.FileDescriptorProto{m.File}})
			if err != nil {
				fail("unknownfeature", "crash", err.Error())
			} else if resp.Error == nil {
				fail("unknownfeature", "noerror", "unknown feature name was not answered with an error")
			}
			p2 := newFile("mproto2")
			p2.Syntax = sp("proto2")
			p2.MessageType = []*descriptorpb.DescriptorProto{{Name: sp("Old"), Field: []*descriptorpb.FieldDescriptorProto{mkField(fieldSpec{name: "a", num: 1, kind: "int32", oneof: -1})}}}
			resp, err = runPlugin(plugin, &pluginpb.CodeGeneratorRequest{FileToGenerate: []string{p2.GetName()}, Parameter: sp("features=protoc+fast"), ProtoFile: []*descriptorpb.FileDescriptorProto{p2}})
			if err != nil {
				fail("proto2", "crash", err.Error())
			} else if resp.Error == nil && len(resp.File) != 0 {
				fail("proto2", "output", "a proto2 file produced output")
			}
			// a file that is present but not requested produces nothing
			resp, err = runPlugin(plugin, &pluginpb.CodeGeneratorRequest{FileToGenerate: []string{matrix[1].File.GetName()}, Parameter: sp("features=protoc+fast"), ProtoFile: []*descriptorpb.FileDescriptorProto{m.File, matrix[1].File}})
			if err != nil {
				fail("notrequested", "crash", err.Error())
			} else if resp.Error == nil {
				for _, f := range resp.File {
					if strings.Contains(f.GetName(), m.Name+"/") {
						fail("notrequested", "output", "a file that was not requested produced output: "+f.GetName())
					}
				}
			}
		}
		plan.Programs = len(matrix)
		sort.Strings(okPkgs)
		// stage 0: generator kernels, solver-quantified over every field number
		ku := staticUnit("generator", "generator", "generator_c13.go.txt")
		plan.Stages = append(plan.Stages, &Stage{Name: "kernels", LoadDir: repoDir, Patterns: []string{"./generator"}, Units: []*Unit{ku}, Regex: "^VH_C12_"})
		// which obligations are re-run on which fresh packages
		props := []string{"C04", "C03"}
		pkgs := []string{"mtags", "moneof", "mscalar", "munpacked"}
		if tier == "thorough" {
			props = []string{"C01", "C02", "C03", "C04", "C05", "C06", "C07", "C08", "C09", "C11", "C14", "C19"}
			pkgs = okPkgs
		} else {
			// rotate one more package in by seed
			if len(okPkgs) > 0 {
				pkgs = append(pkgs, okPkgs[seed()%len(okPkgs)])
			}
		}
		have := map[string]bool{}
		for _, p := range okPkgs {
			have[p] = true
		}
		var pats []string
		seen := map[string]bool{}
		for _, p := range pkgs {
			if have[p] && !seen[p] {
				seen[p] = true
				pats = append(pats, "./"+p)
			}
		}
		isScratch := func(p string) bool { return strings.HasPrefix(p, scratchMod) }
		if len(pats) > 0 {
			for _, prop := range props {
				units, patterns, err := codecUnitsAt(modDir, pats, tier, strings.ToLower(prop), sourceFor(prop, tier))
				if err != nil {
					return plan, fmt.Errorf("harness generation for fresh packages (%s): %v", prop, err)
				}
				plan.Stages = append(plan.Stages, &Stage{Name: "fresh-" + prop, LoadDir: modDir, Patterns: patterns, Units: units, Regex: "^VH_" + prop + "_", ModFiles: modFiles, ModDir: modDir, InitPkgs: isScratch})
			}
		}
		plan.Bounds = map[string]string{
			"schemas":   fmt.Sprintf("enumerated matrix of %d proto3 files built with descriptorpb (no protoc in the sandbox): every scalar kind singular / repeated packed / repeated [packed=false] / oneof member / map value, every map key kind, field numbers needing 1..5 tag bytes up to 2^29-1, two interleaved oneofs, sint oneof members, nested/recursive messages, cross-package import, well-known types, field and oneof names colliding with protoreflect.Message methods; any schema shape outside the matrix is outside the claim", len(matrix)),
			"pipeline":  "plugin rebuilt from /repo's working tree on every run; each schema is its own request (parameter features=protoc+fast); response must carry files and no error; output must pass go build; unknown feature names must be answered with an error; proto2 and non-requested files must produce nothing (pipeline facts, not solver facts)",
			"kernels":   "generator.KeySize == protowire.SizeTag for every field number in [1, 2^29) and wire type 0..5 (solver-quantified); ProtoWireType table for all 18 kinds",
			"fresh":     "obligations " + strings.Join(props, ",") + " re-run by the solver on the freshly generated packages " + strings.Join(pkgs, ",") + " with the same harness generators and bounds as the checked-in packages",
		}
		plan.Stubs = codecStubs
		plan.Extra = map[string]interface{}{"pipeline_log": pipelineLog}
		return plan, nil
	}
	levels["C12"] = "translation_validation"
}

// confirmSpecial confirms counterexamples of harnesses that cannot run natively.
func confirmSpecial(id string, v *sym.Violation) string {
	if id == "C13" && strings.Contains(v.Harness, "MessageIndex") {
		return confirmIndexNondeterminism()
	}
	return "not-confirmable natively"
}

// confirmIndexNondeterminism: the solver says the msgTypes index of a message depends on
// map iteration order when two messages share a short name. Run the real plugin in fresh
// processes on such a schema and compare the responses byte for byte.
func confirmIndexNondeterminism() string {
	scratch, err := os.MkdirTemp("", "symgo-c13-")
	if err != nil {
		return "error: " + err.Error()
	}
	defer os.RemoveAll(scratch)
	plugin, err := buildPlugin(scratch)
	if err != nil {
		return "error: " + err.Error()
	}
	f := newFile("mdup")
	for _, outer := range []string{"Alpha", "Beta", "Gamma", "Delta", "Epsilon"} {
		inner := &descriptorpb.DescriptorProto{Name: sp("Inner"), Field: []*descriptorpb.FieldDescriptorProto{mkField(fieldSpec{name: "v", num: 1, kind: "int32", oneof: -1})}}
		o := &descriptorpb.DescriptorProto{Name: sp(outer), NestedType: []*descriptorpb.DescriptorProto{inner}}
		o.Field = append(o.Field, mkField(fieldSpec{name: "in", num: 1, kind: "message", typeName: ".vh.mdup." + outer + ".Inner", oneof: -1}))
		f.MessageType = append(f.MessageType, o)
	}
	var first map[string]string
	for run := 0; run < 24; run++ {
		res := generateAll(plugin, []*schemaFile{{Name: "mdup", File: f}}, "features=protoc+fast")
		if res[0].Err != "" {
			return "violated (plugin failed on a schema with repeated short names: " + trunc(res[0].Err, 120) + ")"
		}
		if first == nil {
			first = res[0].Files
			continue
		}
		for name, c := range res[0].Files {
			if first[name] != c {
				return fmt.Sprintf("violated (plugin output for %s differs between fresh processes, run %d)", name, run)
			}
		}
	}
	return "ok (24 fresh plugin runs produced identical output)"
}
