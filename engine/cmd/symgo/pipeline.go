package main

import (
	"bytes"
	"fmt"
	"os"
	"os/exec"
	"path/filepath"
	"strings"

	"google.golang.org/protobuf/proto"
	"google.golang.org/protobuf/reflect/protodesc"
	"google.golang.org/protobuf/reflect/protoreflect"
	"google.golang.org/protobuf/reflect/protoregistry"
	"google.golang.org/protobuf/types/descriptorpb"
	"google.golang.org/protobuf/types/pluginpb"

	_ "google.golang.org/protobuf/types/known/anypb"
	_ "google.golang.org/protobuf/types/known/durationpb"
	_ "google.golang.org/protobuf/types/known/timestamppb"
)

const scratchMod = "vhscratch"

// buildPlugin compiles cmd/protoc-gen-go-pulsar from /repo's working tree.
func buildPlugin(dir string) (string, error) {
	out := filepath.Join(dir, "protoc-gen-go-pulsar")
	cmd := exec.Command("go", "build", "-o", out, "./cmd/protoc-gen-go-pulsar")
	cmd.Dir = repoDir
	cmd.Env = os.Environ()
	if b, err := cmd.CombinedOutput(); err != nil {
		return "", fmt.Errorf("building the plugin from /repo failed: %v\n%s", err, trunc(string(b), 600))
	}
	return out, nil
}

func runPlugin(plugin string, req *pluginpb.CodeGeneratorRequest) (*pluginpb.CodeGeneratorResponse, error) {
	in, err := proto.Marshal(req)
	if err != nil {
		return nil, err
	}
	cmd := exec.Command(plugin)
	cmd.Stdin = bytes.NewReader(in)
	var stdout, stderr bytes.Buffer
	cmd.Stdout = &stdout
	cmd.Stderr = &stderr
	cmd.Env = os.Environ()
	if err := cmd.Run(); err != nil {
		return nil, fmt.Errorf("plugin crashed: %v: %s", err, trunc(stderr.String(), 400))
	}
	resp := &pluginpb.CodeGeneratorResponse{}
	if err := proto.Unmarshal(stdout.Bytes(), resp); err != nil {
		return nil, fmt.Errorf("plugin wrote an unparsable response: %v", err)
	}
	return resp, nil
}

// ---------- schema construction helpers ----------

type schemaFile struct {
	Name string // logical name, also the Go package
	File *descriptorpb.FileDescriptorProto
	// Expect: "" (must generate and compile) or a known-finding key
}

func sp(s string) *string { return &s }
func ip(i int32) *int32   { return &i }
func bp(b bool) *bool     { return &b }

var kindByName = map[string]descriptorpb.FieldDescriptorProto_Type{
	"double": 1, "float": 2, "int64": 3, "uint64": 4, "int32": 5, "fixed64": 6, "fixed32": 7, "bool": 8, "string": 9,
	"message": 11, "bytes": 12, "uint32": 13, "enum": 14, "sfixed32": 15, "sfixed64": 16, "sint32": 17, "sint64": 18,
}

var scalarKinds = []string{"double", "float", "int64", "uint64", "int32", "fixed64", "fixed32", "bool", "string", "bytes", "uint32", "sfixed32", "sfixed64", "sint32", "sint64"}
var mapKeyKinds = []string{"int32", "int64", "uint32", "uint64", "sint32", "sint64", "fixed32", "fixed64", "sfixed32", "sfixed64", "bool", "string"}

type fieldSpec struct {
	name     string
	num      int32
	kind     string
	typeName string // for message/enum: fully qualified with leading dot
	repeated bool
	unpacked bool
	oneof    int // -1 none
}

func mkField(fs fieldSpec) *descriptorpb.FieldDescriptorProto {
	f := &descriptorpb.FieldDescriptorProto{Name: sp(fs.name), Number: ip(fs.num), JsonName: sp(fs.name)}
	t := kindByName[fs.kind]
	f.Type = &t
	lab := descriptorpb.FieldDescriptorProto_LABEL_OPTIONAL
	if fs.repeated {
		lab = descriptorpb.FieldDescriptorProto_LABEL_REPEATED
	}
	f.Label = &lab
	if fs.typeName != "" {
		f.TypeName = sp(fs.typeName)
	}
	if fs.unpacked {
		f.Options = &descriptorpb.FieldOptions{Packed: bp(false)}
	}
	if fs.oneof >= 0 {
		f.OneofIndex = ip(int32(fs.oneof))
	}
	return f
}

func camel(s string) string {
	parts := strings.Split(s, "_")
	for i, p := range parts {
		if p != "" {
			parts[i] = strings.ToUpper(p[:1]) + p[1:]
		}
	}
	return strings.Join(parts, "")
}

// addMap adds a map field (synthesising the map-entry message).
func addMap(m *descriptorpb.DescriptorProto, pkg string, parentFull string, name string, num int32, key, val, valType string) {
	entry := camel(name) + "Entry"
	e := &descriptorpb.DescriptorProto{Name: sp(entry), Options: &descriptorpb.MessageOptions{MapEntry: bp(true)}}
	e.Field = append(e.Field, mkField(fieldSpec{name: "key", num: 1, kind: key, oneof: -1}))
	e.Field = append(e.Field, mkField(fieldSpec{name: "value", num: 2, kind: val, typeName: valType, oneof: -1}))
	m.NestedType = append(m.NestedType, e)
	m.Field = append(m.Field, mkField(fieldSpec{name: name, num: num, kind: "message", typeName: "." + parentFull + "." + entry, repeated: true, oneof: -1}))
}

func newFile(pkgName string, deps ...string) *descriptorpb.FileDescriptorProto {
	return &descriptorpb.FileDescriptorProto{
		Name:       sp(pkgName + "/" + pkgName + ".proto"),
		Package:    sp("vh." + pkgName),
		Syntax:     sp("proto3"),
		Dependency: deps,
		Options:    &descriptorpb.FileOptions{GoPackage: sp(scratchMod + "/" + pkgName + ";" + pkgName)},
	}
}

// ---------- the schema matrix ----------

func schemaMatrix() []*schemaFile {
	var out []*schemaFile
	add := func(name string, f *descriptorpb.FileDescriptorProto) { out = append(out, &schemaFile{Name: name, File: f}) }
	small := func(pkg string) (*descriptorpb.FileDescriptorProto, *descriptorpb.DescriptorProto, *descriptorpb.EnumDescriptorProto) {
		f := newFile(pkg)
		en := &descriptorpb.EnumDescriptorProto{Name: sp("Color"), Value: []*descriptorpb.EnumValueDescriptorProto{
			{Name: sp("COLOR_ZERO"), Number: ip(0)}, {Name: sp("COLOR_FOUR"), Number: ip(4)}, {Name: sp("COLOR_NEG"), Number: ip(-2)}}}
		f.EnumType = append(f.EnumType, en)
		leaf := &descriptorpb.DescriptorProto{Name: sp("Leaf")}
		leaf.Field = append(leaf.Field, mkField(fieldSpec{name: "v", num: 1, kind: "int32", oneof: -1}), mkField(fieldSpec{name: "s", num: 2, kind: "string", oneof: -1}))
		f.MessageType = append(f.MessageType, leaf)
		return f, leaf, en
	}

	// 1. every scalar kind, singular
	{
		f, _, _ := small("mscalar")
		m := &descriptorpb.DescriptorProto{Name: sp("Scalars")}
		for i, k := range scalarKinds {
			m.Field = append(m.Field, mkField(fieldSpec{name: "f_" + k, num: int32(i + 1), kind: k, oneof: -1}))
		}
		m.Field = append(m.Field, mkField(fieldSpec{name: "f_enum", num: 20, kind: "enum", typeName: ".vh.mscalar.Color", oneof: -1}))
		m.Field = append(m.Field, mkField(fieldSpec{name: "f_msg", num: 21, kind: "message", typeName: ".vh.mscalar.Leaf", oneof: -1}))
		f.MessageType = append(f.MessageType, m)
		add("mscalar", f)
	}
	// 2. repeated packed / string / bytes / message / enum
	{
		f, _, _ := small("mrepeated")
		m := &descriptorpb.DescriptorProto{Name: sp("Repeated")}
		for i, k := range scalarKinds {
			m.Field = append(m.Field, mkField(fieldSpec{name: "r_" + k, num: int32(i + 1), kind: k, repeated: true, oneof: -1}))
		}
		m.Field = append(m.Field, mkField(fieldSpec{name: "r_enum", num: 20, kind: "enum", typeName: ".vh.mrepeated.Color", repeated: true, oneof: -1}))
		m.Field = append(m.Field, mkField(fieldSpec{name: "r_msg", num: 21, kind: "message", typeName: ".vh.mrepeated.Leaf", repeated: true, oneof: -1}))
		f.MessageType = append(f.MessageType, m)
		add("mrepeated", f)
	}
	// 3. repeated [packed=false]
	{
		f, _, _ := small("munpacked")
		m := &descriptorpb.DescriptorProto{Name: sp("Unpacked")}
		n := int32(1)
		for _, k := range scalarKinds {
			if k == "string" || k == "bytes" {
				continue
			}
			m.Field = append(m.Field, mkField(fieldSpec{name: "u_" + k, num: n, kind: k, repeated: true, unpacked: true, oneof: -1}))
			n++
		}
		m.Field = append(m.Field, mkField(fieldSpec{name: "u_enum", num: 20, kind: "enum", typeName: ".vh.munpacked.Color", repeated: true, unpacked: true, oneof: -1}))
		f.MessageType = append(f.MessageType, m)
		add("munpacked", f)
	}
	// 4. two interleaved oneofs with members of every kind except sint32/sint64
	{
		f, _, _ := small("moneof")
		m := &descriptorpb.DescriptorProto{Name: sp("Oneofs")}
		m.OneofDecl = []*descriptorpb.OneofDescriptorProto{{Name: sp("first")}, {Name: sp("second")}}
		// members of one oneof are declared consecutively (protobuf rule) but the field
		// NUMBERS of the two oneofs interleave
		for pass := 0; pass < 2; pass++ {
			n := int32(1)
			for i, k := range scalarKinds {
				if k == "sint32" || k == "sint64" {
					continue
				}
				if i%2 == pass {
					m.Field = append(m.Field, mkField(fieldSpec{name: "o_" + k, num: n, kind: k, oneof: pass}))
				}
				n++
			}
			if pass == 0 {
				m.Field = append(m.Field, mkField(fieldSpec{name: "o_enum", num: 30, kind: "enum", typeName: ".vh.moneof.Color", oneof: 0}))
			}
		}
		m.Field = append(m.Field, mkField(fieldSpec{name: "o_msg", num: 31, kind: "message", typeName: ".vh.moneof.Leaf", oneof: 1}))
		m.Field = append(m.Field, mkField(fieldSpec{name: "plain", num: 40, kind: "int64", oneof: -1}))
		f.MessageType = append(f.MessageType, m)
		add("moneof", f)
	}
	// 5. sint32 / sint64 oneof members (kept apart: a generator failure stays local)
	{
		f, _, _ := small("moneofsint")
		m := &descriptorpb.DescriptorProto{Name: sp("SintOneof")}
		m.OneofDecl = []*descriptorpb.OneofDescriptorProto{{Name: sp("choice")}}
		m.Field = append(m.Field, mkField(fieldSpec{name: "a", num: 1, kind: "sint32", oneof: 0}), mkField(fieldSpec{name: "b", num: 2, kind: "sint64", oneof: 0}), mkField(fieldSpec{name: "c", num: 3, kind: "string", oneof: 0}))
		f.MessageType = append(f.MessageType, m)
		add("moneofsint", f)
	}
	// 6. maps: every key kind x {int32 value}, and string key x every value kind
	{
		f, _, _ := small("mmaps")
		m := &descriptorpb.DescriptorProto{Name: sp("Maps")}
		n := int32(1)
		for _, k := range mapKeyKinds {
			addMap(m, "vh.mmaps", "vh.mmaps.Maps", "k_"+k, n, k, "int32", "")
			n++
		}
		for _, v := range scalarKinds {
			addMap(m, "vh.mmaps", "vh.mmaps.Maps", "v_"+v, n, "string", v, "")
			n++
		}
		addMap(m, "vh.mmaps", "vh.mmaps.Maps", "v_enum", n, "string", "enum", ".vh.mmaps.Color")
		n++
		addMap(m, "vh.mmaps", "vh.mmaps.Maps", "v_msg", n, "int64", "message", ".vh.mmaps.Leaf")
		n++
		addMap(m, "vh.mmaps", "vh.mmaps.Maps", "b_msg", n, "bool", "message", ".vh.mmaps.Leaf")
		f.MessageType = append(f.MessageType, m)
		add("mmaps", f)
	}
	// 7. tag widths 1..5 bytes
	{
		f, _, _ := small("mtags")
		m := &descriptorpb.DescriptorProto{Name: sp("Tags")}
		nums := []int32{1, 15, 16, 2047, 2048, 262143, 262144, 33554431, 33554432, 268435455, 268435456, 536870911}
		kinds := []string{"int32", "string", "sint64", "bool", "fixed32", "double", "bytes", "uint64", "int64", "sfixed64", "string", "int32"}
		for i, num := range nums {
			m.Field = append(m.Field, mkField(fieldSpec{name: fmt.Sprintf("t%d", i), num: num, kind: kinds[i], oneof: -1}))
		}
		m.Field = append(m.Field, mkField(fieldSpec{name: "tr", num: 536870910, kind: "int32", repeated: true, oneof: -1}))
		m.Field = append(m.Field, mkField(fieldSpec{name: "tm", num: 536870909, kind: "message", typeName: ".vh.mtags.Leaf", oneof: -1}))
		addMap(m, "vh.mtags", "vh.mtags.Tags", "tmap", 536870908, "string", "int32", "")
		m.OneofDecl = []*descriptorpb.OneofDescriptorProto{{Name: sp("big")}}
		m.Field = append(m.Field, mkField(fieldSpec{name: "to", num: 536870907, kind: "uint32", oneof: 0}))
		f.MessageType = append(f.MessageType, m)
		add("mtags", f)
	}
	// 8. nested / recursive messages
	{
		f, _, _ := small("mnested")
		inner2 := &descriptorpb.DescriptorProto{Name: sp("Inner2"), Field: []*descriptorpb.FieldDescriptorProto{mkField(fieldSpec{name: "z", num: 1, kind: "bytes", oneof: -1})}}
		inner := &descriptorpb.DescriptorProto{Name: sp("Inner"), NestedType: []*descriptorpb.DescriptorProto{inner2},
			Field: []*descriptorpb.FieldDescriptorProto{mkField(fieldSpec{name: "y", num: 1, kind: "uint32", oneof: -1}), mkField(fieldSpec{name: "deep", num: 2, kind: "message", typeName: ".vh.mnested.Outer.Inner.Inner2", oneof: -1})}}
		outer := &descriptorpb.DescriptorProto{Name: sp("Outer"), NestedType: []*descriptorpb.DescriptorProto{inner}}
		outer.Field = append(outer.Field,
			mkField(fieldSpec{name: "self", num: 1, kind: "message", typeName: ".vh.mnested.Outer", oneof: -1}),
			mkField(fieldSpec{name: "inner", num: 2, kind: "message", typeName: ".vh.mnested.Outer.Inner", oneof: -1}),
			mkField(fieldSpec{name: "selves", num: 3, kind: "message", typeName: ".vh.mnested.Outer", repeated: true, oneof: -1}),
			mkField(fieldSpec{name: "x", num: 4, kind: "sint32", oneof: -1}))
		addMap(outer, "vh.mnested", "vh.mnested.Outer", "by_name", 5, "string", "message", ".vh.mnested.Outer")
		f.MessageType = append(f.MessageType, outer)
		// nested messages declared AFTER a map field: protoc places the synthetic entry
		// message first in nested_type, so the generator meets a map entry before them
		mapFirst := &descriptorpb.DescriptorProto{Name: sp("MapFirst")}
		addMap(mapFirst, "vh.mnested", "vh.mnested.MapFirst", "counts", 1, "string", "int32", "")
		tail := &descriptorpb.DescriptorProto{Name: sp("Tail"), Field: []*descriptorpb.FieldDescriptorProto{mkField(fieldSpec{name: "t", num: 1, kind: "int64", oneof: -1})}}
		tail2 := &descriptorpb.DescriptorProto{Name: sp("Tail2"), Field: []*descriptorpb.FieldDescriptorProto{mkField(fieldSpec{name: "u", num: 1, kind: "string", oneof: -1})}}
		mapFirst.NestedType = append(mapFirst.NestedType, tail, tail2)
		mapFirst.Field = append(mapFirst.Field,
			mkField(fieldSpec{name: "tail", num: 2, kind: "message", typeName: ".vh.mnested.MapFirst.Tail", oneof: -1}),
			mkField(fieldSpec{name: "tails", num: 3, kind: "message", typeName: ".vh.mnested.MapFirst.Tail2", repeated: true, oneof: -1}))
		f.MessageType = append(f.MessageType, mapFirst)
		add("mnested", f)
	}
	// 9. field names colliding with protoreflect.Message methods, with methods of the
	// message struct, and with identifiers local to the generated code (one file each)
	nameGroups := map[string][]string{
		"mnames":  {"get", "set", "has", "clear", "range", "descriptor", "type", "new", "interface", "mutable", "is_valid", "which_oneof", "get_unknown", "set_unknown", "new_field", "proto_methods"},
		"mnames2": {"reset", "string", "proto_message", "proto_reflect"},
		"mnames3": {"x", "input", "options", "n", "l", "i", "d_at_a", "size", "err", "value", "fd", "v", "k", "wire", "b", "len", "cap", "append", "copy", "make", "string_", "int32", "uint64", "bool", "byte", "nil", "true", "false", "iota", "math", "fmt", "runtime", "protoreflect", "protoiface", "sort", "io"},
	}
	for _, gname := range []string{"mnames", "mnames2", "mnames3"} {
		f, _, _ := small(gname)
		m := &descriptorpb.DescriptorProto{Name: sp("Names")}
		for i, name := range nameGroups[gname] {
			k := []string{"int32", "string", "bool"}[i%3]
			m.Field = append(m.Field, mkField(fieldSpec{name: name, num: int32(i + 1), kind: k, oneof: -1}))
		}
		f.MessageType = append(f.MessageType, m)
		add(gname, f)
	}
	// 10. a oneof whose name collides with a protoreflect.Message method
	{
		f, _, _ := small("moneofname")
		m := &descriptorpb.DescriptorProto{Name: sp("OneofName")}
		m.OneofDecl = []*descriptorpb.OneofDescriptorProto{{Name: sp("type")}}
		m.Field = append(m.Field, mkField(fieldSpec{name: "a", num: 1, kind: "int32", oneof: 0}), mkField(fieldSpec{name: "b", num: 2, kind: "string", oneof: 0}))
		f.MessageType = append(f.MessageType, m)
		add("moneofname", f)
	}
	// 11. well-known types and a cross-package import
	{
		f := newFile("mimported")
		im := &descriptorpb.DescriptorProto{Name: sp("Shared"), Field: []*descriptorpb.FieldDescriptorProto{mkField(fieldSpec{name: "id", num: 1, kind: "fixed64", oneof: -1})}}
		f.MessageType = append(f.MessageType, im)
		add("mimported", f)
		g := newFile("mwkt", "mimported/mimported.proto", "google/protobuf/any.proto", "google/protobuf/timestamp.proto", "google/protobuf/duration.proto")
		m := &descriptorpb.DescriptorProto{Name: sp("Wkt")}
		m.Field = append(m.Field,
			mkField(fieldSpec{name: "any", num: 1, kind: "message", typeName: ".google.protobuf.Any", oneof: -1}),
			mkField(fieldSpec{name: "ts", num: 2, kind: "message", typeName: ".google.protobuf.Timestamp", oneof: -1}),
			mkField(fieldSpec{name: "ds", num: 3, kind: "message", typeName: ".google.protobuf.Duration", repeated: true, oneof: -1}),
			mkField(fieldSpec{name: "shared", num: 4, kind: "message", typeName: ".vh.mimported.Shared", oneof: -1}),
			mkField(fieldSpec{name: "n", num: 5, kind: "int32", oneof: -1}))
		g.MessageType = append(g.MessageType, m)
		add("mwkt", g)
	}
	return out
}

// depsClosure returns proto files (FileDescriptorProto) needed by f, dependencies first.
func depsClosure(all map[string]*descriptorpb.FileDescriptorProto, f *descriptorpb.FileDescriptorProto, seen map[string]bool, out *[]*descriptorpb.FileDescriptorProto) error {
	for _, d := range f.Dependency {
		if seen[d] {
			continue
		}
		seen[d] = true
		df, ok := all[d]
		if !ok {
			fd, err := protoregistry.GlobalFiles.FindFileByPath(d)
			if err != nil {
				return fmt.Errorf("dependency %s not found", d)
			}
			df = protodesc.ToFileDescriptorProto(fd)
		}
		if err := depsClosure(all, df, seen, out); err != nil {
			return err
		}
		*out = append(*out, df)
	}
	return nil
}

// generate runs the plugin for the given schema files (one request each, so a failure is local).
type genResult struct {
	Schema *schemaFile
	Files  map[string]string // relative path -> content
	Err    string            // plugin error / crash
}

func generateAll(plugin string, schemas []*schemaFile, param string) []*genResult {
	all := map[string]*descriptorpb.FileDescriptorProto{}
	for _, s := range schemas {
		all[s.File.GetName()] = s.File
	}
	var res []*genResult
	for _, s := range schemas {
		r := &genResult{Schema: s, Files: map[string]string{}}
		res = append(res, r)
		var protos []*descriptorpb.FileDescriptorProto
		if err := depsClosure(all, s.File, map[string]bool{}, &protos); err != nil {
			r.Err = err.Error()
			continue
		}
		protos = append(protos, s.File)
		// validate the schema itself with protodesc so that an invalid matrix entry is our bug, not the generator's
		if _, err := protodesc.NewFiles(&descriptorpb.FileDescriptorSet{File: protos}); err != nil {
			r.Err = "matrix schema invalid: " + err.Error()
			continue
		}
		req := &pluginpb.CodeGeneratorRequest{FileToGenerate: []string{s.File.GetName()}, Parameter: sp(param), ProtoFile: protos}
		resp, err := runPlugin(plugin, req)
		if err != nil {
			r.Err = err.Error()
			continue
		}
		if resp.Error != nil {
			r.Err = "plugin answered with an error: " + resp.GetError()
			continue
		}
		for _, f := range resp.File {
			r.Files[f.GetName()] = f.GetContent()
		}
		if len(r.Files) == 0 {
			r.Err = "plugin produced no file for a proto3 schema"
		}
	}
	return res
}

// writeScratchModule writes generated files into dir as module vhscratch.
func writeScratchModule(dir string, results []*genResult) error {
	gomod := "module " + scratchMod + "\n\ngo 1.18\n\nrequire (\n\tgithub.com/cosmos/cosmos-proto v0.0.0\n\tgoogle.golang.org/protobuf v1.34.0\n)\n\nreplace github.com/cosmos/cosmos-proto => " + repoDir + "\n"
	if err := os.WriteFile(filepath.Join(dir, "go.mod"), []byte(gomod), 0o644); err != nil {
		return err
	}
	sum, err := os.ReadFile(filepath.Join(repoDir, "go.sum"))
	if err != nil {
		return err
	}
	if err := os.WriteFile(filepath.Join(dir, "go.sum"), sum, 0o644); err != nil {
		return err
	}
	for _, r := range results {
		for name, content := range r.Files {
			rel := strings.TrimPrefix(name, scratchMod+"/")
			p := filepath.Join(dir, rel)
			os.MkdirAll(filepath.Dir(p), 0o755)
			if err := os.WriteFile(p, []byte(content), 0o644); err != nil {
				return err
			}
		}
	}
	return nil
}

func goBuildPkg(dir, pkg string) string {
	cmd := exec.Command("go", "build", "./"+pkg+"/...")
	cmd.Dir = dir
	cmd.Env = os.Environ()
	b, err := cmd.CombinedOutput()
	if err != nil {
		return trunc(strings.TrimSpace(string(b)), 500)
	}
	return ""
}

var _ protoreflect.FullName
