package main

import (
	"fmt"
	"regexp"
)

// ---------- clone ----------

func (g *gen) cloneMessage(m *Message) {
	n := m.GoName
	g.p("// vhClone_%s is a deep copy used to compute the expected post-state of a decode step.", n)
	g.p("func vhClone_%s(x *%s) *%s {", n, n, n)
	g.p("\tif x == nil {")
	g.p("\t\treturn nil")
	g.p("\t}")
	g.p("\ty := &%s{}", n)
	cl := func(f *Field, src string) string {
		switch f.Kind {
		case "bytes":
			return fmt.Sprintf("vhCloneBytes(%s)", src)
		case "message":
			if f.MsgName != "" {
				return fmt.Sprintf("vhClone_%s(%s)", f.MsgName, src)
			}
		}
		return src
	}
	for _, f := range m.Fields {
		switch f.Card {
		case "singular":
			g.p("\ty.%s = %s", f.GoName, cl(f, "x."+f.GoName))
		case "repeated":
			g.p("\tif x.%s != nil {", f.GoName)
			g.p("\t\ty.%s = %s{}", f.GoName, f.GoType)
			g.p("\t\tfor _, e := range x.%s {", f.GoName)
			g.p("\t\t\ty.%s = append(y.%s, %s)", f.GoName, f.GoName, cl(f, "e"))
			g.p("\t\t}")
			g.p("\t}")
		case "map":
			g.p("\tif x.%s != nil {", f.GoName)
			g.p("\t\ty.%s = %s{}", f.GoName, f.MapGo)
			g.p("\t\tfor k, v := range x.%s {", f.GoName)
			g.p("\t\t\ty.%s[k] = %s", f.GoName, cl(f.Val, "v"))
			g.p("\t\t}")
			g.p("\t}")
		}
	}
	for _, o := range m.Oneofs {
		g.p("\tswitch o := x.%s.(type) {", o.GoName)
		for _, f := range o.Members {
			g.p("\tcase *%s:", f.Wrapper)
			g.p("\t\ty.%s = &%s{%s: %s}", o.GoName, f.Wrapper, f.WField, cl(f, "o."+f.WField))
		}
		g.p("\t}")
	}
	g.p("\ty.unknownFields = vhCloneBytes(x.unknownFields)")
	g.p("\treturn y")
	g.p("}")
	g.p("")
}

func (g *gen) decodeCommon() {
	g.p("func vhCloneBytes(b []byte) []byte {")
	g.p("\tif b == nil {")
	g.p("\t\treturn nil")
	g.p("\t}")
	g.p("\treturn append([]byte{}, b...)")
	g.p("}")
	g.p("")
	g.p("// vhVarint appends v minimally, or (when it fits in 10 bytes) with one redundant")
	g.p("// continuation group: well-typed streams may carry non-minimal varints.")
	g.p("var vhPadOn bool // harnesses for scalar fields enable non-minimal varints")
	g.p("")
	g.p("func vhVarint(b []byte, v uint64, p string) []byte {")
	g.p("\tn := protowire.SizeVarint(v)")
	g.p("\tif vhPadOn && n < 10 && vhChoice(p+\".pad\", 2) == 1 {")
	g.p("\t\tfor i := 0; i < n; i++ {")
	g.p("\t\t\tb = append(b, byte(v>>(7*uint(i)))|0x80)")
	g.p("\t\t}")
	g.p("\t\treturn append(b, 0)")
	g.p("\t}")
	g.p("\treturn protowire.AppendVarint(b, v)")
	g.p("}")
	g.p("")
	g.p("func vhTag(b []byte, num int32, wt protowire.Type, p string) []byte {")
	g.p("\treturn vhVarint(b, uint64(num)<<3|uint64(wt), p+\".tag\")")
	g.p("}")
	g.p("")
	g.p("func vhLenPrefixed(b []byte, payload []byte, p string) []byte {")
	g.p("\tb = vhVarint(b, uint64(len(payload)), p+\".len\")")
	g.p("\treturn append(b, payload...)")
	g.p("}")
	g.p("")
}

// decodeWire emits statements that append the wire value of a fresh symbolic value for
// scalar kind f to `rec` and define `val` (the Go value the reference decoder yields).
func (g *gen) decodeWire(f *Field, rec, name, ind string) {
	t := scalarGo(f)
	switch f.Kind {
	case "int32", "int64", "uint32", "uint64", "enum":
		g.p("%sraw := vhU64(%s)", ind, name)
		g.p("%s%s = vhVarint(%s, raw, %s)", ind, rec, rec, name)
		g.p("%sval := %s(raw)", ind, t)
	case "bool":
		g.p("%sraw := vhU64(%s)", ind, name)
		g.p("%s%s = vhVarint(%s, raw, %s)", ind, rec, rec, name)
		g.p("%sval := raw != 0", ind)
	case "sint32":
		g.p("%sraw := vhU64(%s)", ind, name)
		g.p("%s%s = vhVarint(%s, raw, %s)", ind, rec, rec, name)
		g.p("%sval := %s(protowire.DecodeZigZag(raw & 0xffffffff))", ind, t)
	case "sint64":
		g.p("%sraw := vhU64(%s)", ind, name)
		g.p("%s%s = vhVarint(%s, raw, %s)", ind, rec, rec, name)
		g.p("%sval := %s(protowire.DecodeZigZag(raw))", ind, t)
	case "fixed32", "sfixed32":
		g.p("%sraw := vhU32(%s)", ind, name)
		g.p("%s%s = protowire.AppendFixed32(%s, raw)", ind, rec, rec)
		g.p("%sval := %s(raw)", ind, t)
	case "float":
		g.p("%sraw := vhF32(%s)", ind, name)
		g.p("%s%s = protowire.AppendFixed32(%s, raw)", ind, rec, rec)
		g.p("%sval := math.Float32frombits(raw)", ind)
	case "fixed64", "sfixed64":
		g.p("%sraw := vhU64(%s)", ind, name)
		g.p("%s%s = protowire.AppendFixed64(%s, raw)", ind, rec, rec)
		g.p("%sval := %s(raw)", ind, t)
	case "double":
		g.p("%sraw := vhF64(%s)", ind, name)
		g.p("%s%s = protowire.AppendFixed64(%s, raw)", ind, rec, rec)
		g.p("%sval := math.Float64frombits(raw)", ind)
	case "string":
		g.p("%sval := vhString(%s, %d)", ind, name, g.strLen)
		g.p("%s%s = vhLenPrefixed(%s, []byte(val), %s)", ind, rec, rec, name)
	case "bytes":
		g.p("%sval := vhBytes(%s, %d)", ind, name, g.strLen)
		g.p("%s%s = vhLenPrefixed(%s, val, %s)", ind, rec, rec, name)
	default:
		panic("decodeWire " + f.Kind)
	}
}

// nestedPayload emits code building `payload` (bytes of a nested message holding one
// record for a chosen scalar field) and a closure-free description of its effect:
// after the block, `apply(t *T)` semantics are emitted inline by the caller through
// the returned statements.
func (g *gen) nestedRecord(tm *Message, name, ind string) (apply []string) {
	// choose a scalar singular field of the nested type, if any
	var sf *Field
	for _, f := range tm.Fields {
		if f.Card == "singular" && f.Kind != "message" {
			sf = f
			break
		}
	}
	g.p("%svar payload []byte", ind)
	if sf == nil {
		g.p("%s// nested type has no singular scalar field: use an unknown record (or nothing)", ind)
		g.p("%svar unk []byte", ind)
		g.p("%sif vhChoice(%s+\".kind\", 2) == 1 {", ind, name)
		g.p("%s\tunk = vhUnknown_%s(%s + \".unk\")", ind, tm.GoName, name)
		g.p("%s}", ind)
		g.p("%spayload = append(payload, unk...)", ind)
		return []string{"T.unknownFields = append(T.unknownFields, unk...)"}
	}
	g.p("%snkind := vhChoice(%s+\".kind\", 2) // 0: empty payload, 1: one scalar record", ind, name)
	g.p("%svar nval %s", ind, scalarGo(sf))
	g.p("%sif nkind == 1 {", ind)
	g.p("%s\tnval = func() %s {", ind, scalarGo(sf))
	g.p("%s\t\tpayload = vhTag(payload, %d, protowire.%sType, %s+\".n\")", ind, sf.Number, wireKind(sf), name)
	g.decodeWire(sf, "payload", name+"+\".nv\"", ind+"\t\t")
	g.p("%s\t\treturn val", ind)
	g.p("%s\t}()", ind)
	g.p("%s}", ind)
	if sf.Kind == "bytes" {
		return []string{fmt.Sprintf("if nkind == 1 { T.%s = vhCloneBytes(nval); if T.%s == nil { T.%s = []byte{} } }", sf.GoName, sf.GoName, sf.GoName)}
	}
	return []string{fmt.Sprintf("if nkind == 1 { T.%s = nval }", sf.GoName)}
}

// decodeStep emits the C03 harness for one field: arbitrary pre-state, one well-typed
// record, expected post-state computed on a clone.
func (g *gen) decodeStep(m *Message, f *Field, h2 bool) {
	if f.Card == "map" {
		for shape := 0; shape < 7; shape++ {
			g.decodeStepShape(m, f, h2, shape)
		}
		return
	}
	g.decodeStepShape(m, f, h2, -1)
}

func (g *gen) decodeStepShape(m *Message, f *Field, h2 bool, shapeNo int) {
	n := m.GoName
	suffix := ""
	if shapeNo >= 0 {
		suffix = fmt.Sprintf("_shape%d", shapeNo)
	}
	if f.Card == "oneof" && f.Kind == "message" {
		suffix = "_oneofmsg"
	}
	if h2 {
		suffix += "_h2"
	}
	saveStr := g.strLen
	if f.Card == "map" {
		g.strLen = 4
		defer func() { g.strLen = saveStr }()
	}
	shapeMark := g.sb.Len()
	if shapeNo >= 5 {
		// shapes with an unknown sub-record: the value payload stays empty (its decoding is the
		// business of shapes 0/1), which keeps these harnesses to seconds
		defer func() {
			all := g.sb.String()
			seg := regexp.MustCompile(`nkind := vhChoice\([^)]*\)`).ReplaceAllString(all[shapeMark:], "nkind := 0")
			// ... and the key / value sub-record tags are minimal (padded tags are shapes 0..4)
			seg = regexp.MustCompile(`vhTag\(entry, (\d), (protowire\.\w+), "[kw]"\)`).ReplaceAllString(seg, "protowire.AppendTag(entry, $1, $2)")
			if g.tier != "thorough" {
				// quick: varint keys and values are one-byte minimal varints (7 symbolic bits)
				seg = regexp.MustCompile(`raw := vhU64\("(kv|vv)"\)`).ReplaceAllString(seg, `raw := vhU64("$1") & 0x7f`)
				seg = regexp.MustCompile(`vhVarint\(entry, raw, "(kv|vv)"\)`).ReplaceAllString(seg, "protowire.AppendVarint(entry, raw)")
			}
			g.sb.Reset()
			g.sb.WriteString(all[:shapeMark])
			g.sb.WriteString(seg)
		}()
	}
	g.p("func VH_C03_%s_%s%s() {", n, f.GoName, suffix)
	g.p("\tx := &%s{}", n)
	if h2 {
		g.p("\tvhFill_%s(x)", n)
		if f.Card == "oneof" {
			g.p("\tx.%s = nil", f.Oneof.GoName)
		} else {
			g.p("\tx.%s = %s", f.GoName, zeroLit(f))
		}
		g.p("\tvhBuild_%s_%s(x, \"pre\", 0)", n, f.GoName)
	} else {
		g.p("\tvhBuild_%s_%s(x, \"pre\", 1)", n, f.GoName)
		if f.Card == "oneof" {
			// also allow a sibling member or nothing to be selected beforehand
			g.p("\tswitch vhChoice(\"pre.sel\", %d) {", len(f.Oneof.Members)+1)
			k := 1
			for _, sib := range f.Oneof.Members {
				if sib == f {
					continue
				}
				g.p("\tcase %d:", k)
				g.p("\t\tx.%s = nil", f.Oneof.GoName)
				g.p("\t\tvhBuild_%s_%s(x, \"presib\", 0)", n, sib.GoName)
				k++
			}
			g.p("\tcase %d:", k)
			g.p("\t\tx.%s = nil", f.Oneof.GoName)
			g.p("\t}")
		}
	}
	g.p("\texp := vhClone_%s(x)", n)
	g.p("\tvar rec []byte")
	if f.Kind != "message" && f.Card != "map" && !h2 {
		g.p("\tvhPadOn = true")
	}
	acc := "exp." + f.GoName
	switch {
	case f.Card == "singular" && f.Kind != "message":
		g.p("\trec = vhTag(rec, %d, protowire.%sType, \"r\")", f.Number, wireKind(f))
		g.decodeWire(f, "rec", "\"v\"", "\t")
		if f.Kind == "bytes" {
			g.p("\t%s = vhCloneBytes(val)", acc)
		} else {
			g.p("\t%s = val", acc)
		}
	case f.Card == "repeated" && f.Kind != "message":
		if isPackable(f) {
			g.p("\tif vhChoice(\"packed\", 2) == 1 {")
			g.p("\t\tvar run []byte")
			g.p("\t\tk := vhChoice(\"run\", 3)")
			g.p("\t\tvhPadOn = false")
			g.p("\t\tfor i := 0; i < k; i++ {")
			g.p("\t\t\tfunc() {")
			g.decodeWire(f, "run", "vhIdx(\"e\", i)", "\t\t\t\t")
			g.p("\t\t\t\t%s = append(%s, val)", acc, acc)
			g.p("\t\t\t}()")
			g.p("\t\t}")
			g.p("\t\trec = vhTag(rec, %d, protowire.BytesType, \"r\")", f.Number)
			g.p("\t\trec = vhLenPrefixed(rec, run, \"run\")")
			g.p("\t} else {")
			g.p("\t\trec = vhTag(rec, %d, protowire.%sType, \"r\")", f.Number, wireKind(f))
			g.decodeWire(f, "rec", "\"v\"", "\t\t")
			g.p("\t\t%s = append(%s, val)", acc, acc)
			g.p("\t}")
		} else {
			g.p("\trec = vhTag(rec, %d, protowire.BytesType, \"r\")", f.Number)
			g.decodeWire(f, "rec", "\"v\"", "\t")
			if f.Kind == "bytes" {
				g.p("\t%s = append(%s, vhCloneBytes(val))", acc, acc)
			} else {
				g.p("\t%s = append(%s, val)", acc, acc)
			}
		}
	case f.Kind == "message" && f.Card != "map":
		if f.MsgName == "" {
			g.p("\t// foreign message type: only an empty payload is exercised")
			g.p("\trec = vhTag(rec, %d, protowire.BytesType, \"r\")", f.Number)
			g.p("\trec = vhLenPrefixed(rec, nil, \"m\")")
			g.p("\t_ = exp")
			g.p("\tvhNote(\"foreign\")")
			g.p("\tvhAssert(\"foreign.skipped\", true)")
			g.p("}")
			g.p("")
			return
		}
		tm := g.s.ByName[f.MsgName]
		apply := g.nestedRecord(tm, "\"m\"", "\t")
		g.p("\trec = vhTag(rec, %d, protowire.BytesType, \"r\")", f.Number)
		g.p("\trec = vhLenPrefixed(rec, payload, \"m\")")
		switch f.Card {
		case "singular":
			g.p("\t// a repeated occurrence of a singular message field merges into the existing value")
			g.p("\tif exp.%s == nil {", f.GoName)
			g.p("\t\texp.%s = &%s{}", f.GoName, f.MsgName)
			g.p("\t}")
			g.p("\tT := exp.%s", f.GoName)
		case "repeated":
			g.p("\tT := &%s{}", f.MsgName)
			g.p("\texp.%s = append(exp.%s, T)", f.GoName, f.GoName)
		case "oneof":
			g.p("\t// the same message member already selected: merge; otherwise replace")
			g.p("\tvar T *%s", f.MsgName)
			g.p("\tif o, ok := exp.%s.(*%s); ok && o.%s != nil {", f.Oneof.GoName, f.Wrapper, f.WField)
			g.p("\t\tT = o.%s", f.WField)
			g.p("\t} else {")
			g.p("\t\tT = &%s{}", f.MsgName)
			g.p("\t\texp.%s = &%s{%s: T}", f.Oneof.GoName, f.Wrapper, f.WField)
			g.p("\t}")
		}
		for _, s := range apply {
			g.p("\t%s", s)
		}
	case f.Card == "oneof":
		g.p("\trec = vhTag(rec, %d, protowire.%sType, \"r\")", f.Number, wireKind(f))
		g.decodeWire(f, "rec", "\"v\"", "\t")
		if f.Kind == "bytes" {
			g.p("\texp.%s = &%s{%s: vhCloneBytes(val)}", f.Oneof.GoName, f.Wrapper, f.WField)
		} else {
			g.p("\texp.%s = &%s{%s: val}", f.Oneof.GoName, f.Wrapper, f.WField)
		}
	case f.Card == "map":
		g.p("\t// map entry: key and value sub-records in either order, each possibly missing")
		g.p("\tvar entry []byte")
		g.p("\tvar key %s", f.Key.GoType)
		g.p("\tvar value %s", f.Val.GoType)
		if f.Val.Kind == "message" && f.Val.MsgName != "" {
			g.p("\tvalue = &%s{} // a missing value is an empty message in the reference", f.Val.MsgName)
		}
		g.p("\tconst shape = %d // 0: k,v  1: v,k  2: k only  3: v only  4: empty  5: k,v,unknown  6: unknown,k,v", shapeNo)
		g.p("\t// an unknown sub-record inside the entry (field 3 varint / field 9 bytes) is skipped")
		g.p("\tputUnknown := func() {")
		g.p("\t\tif vhChoice(\"ukind\", 2) == 0 {")
		g.p("\t\t\tentry = protowire.AppendTag(entry, 3, protowire.VarintType)")
		g.p("\t\t\tentry = protowire.AppendVarint(entry, uint64(vhU8(\"uv\")))")
		g.p("\t\t} else {")
		g.p("\t\t\tentry = protowire.AppendTag(entry, 9, protowire.BytesType)")
		g.p("\t\t\tentry = protowire.AppendBytes(entry, vhBytes(\"ub\", 2))")
		g.p("\t\t}")
		g.p("\t}")
		g.p("\tputKey := func() {")
		g.p("\t\tentry = vhTag(entry, 1, protowire.%sType, \"k\")", wireKind(f.Key))
		g.decodeWireBounded(f.Key, "entry", "\"kv\"", "\t\t", g.keyLen)
		g.p("\t\tkey = val")
		g.p("\t}")
		g.p("\tputVal := func() {")
		g.p("\t\tentry = vhTag(entry, 2, protowire.%sType, \"w\")", wireKind(f.Val))
		if f.Val.Kind == "message" {
			if f.Val.MsgName != "" {
				tm := g.s.ByName[f.Val.MsgName]
				apply := g.nestedRecord(tm, "\"m\"", "\t\t")
				g.p("\t\tentry = vhLenPrefixed(entry, payload, \"m\")")
				g.p("\t\tT := &%s{}", f.Val.MsgName)
				for _, s := range apply {
					g.p("\t\t%s", s)
				}
				g.p("\t\tvalue = T")
			} else {
				g.p("\t\tentry = vhLenPrefixed(entry, nil, \"m\")")
			}
		} else {
			g.decodeWire(f.Val, "entry", "\"vv\"", "\t\t")
			if f.Val.Kind == "bytes" {
				g.p("\t\tvalue = vhCloneBytes(val)")
			} else {
				g.p("\t\tvalue = val")
			}
		}
		g.p("\t}")
		g.p("\tswitch shape {")
		g.p("\tcase 0:")
		g.p("\t\tputKey()")
		g.p("\t\tputVal()")
		g.p("\tcase 1:")
		g.p("\t\tputVal()")
		g.p("\t\tputKey()")
		g.p("\tcase 2:")
		g.p("\t\tputKey()")
		g.p("\tcase 3:")
		g.p("\t\tputVal()")
		g.p("\tcase 5:")
		g.p("\t\tputKey()")
		g.p("\t\tputVal()")
		g.p("\t\tputUnknown()")
		g.p("\tcase 6:")
		g.p("\t\tputUnknown()")
		g.p("\t\tputKey()")
		g.p("\t\tputVal()")
		g.p("\t}")
		g.p("\t_ = putUnknown")
		g.p("\trec = vhTag(rec, %d, protowire.BytesType, \"r\")", f.Number)
		g.p("\trec = vhLenPrefixed(rec, entry, \"e\")")
		g.p("\tif exp.%s == nil {", f.GoName)
		g.p("\t\texp.%s = %s{}", f.GoName, f.MapGo)
		g.p("\t}")
		if f.Val.Kind == "bytes" {
			g.p("\tif value == nil {")
			g.p("\t\tvalue = []byte{}")
			g.p("\t}")
		}
		g.p("\texp.%s[key] = value", f.GoName)
	}
	g.p("\terr := vhUnmarshalStep_%s(x, rec, 0)", n)
	g.p("\tvhAssert(\"accepts\", err == nil)")
	g.p("\tvhAssertEq_%s(\"step\", exp, x)", n)
	g.p("}")
	g.p("")
}

func (g *gen) decodeWireBounded(f *Field, rec, name, ind string, bound int) {
	if f.Kind == "string" {
		g.p("%sval := vhString(%s, %d)", ind, name, bound)
		g.p("%s%s = vhLenPrefixed(%s, []byte(val), %s)", ind, rec, rec, name)
		return
	}
	g.decodeWire(f, rec, name, ind)
}

// libraryDecode: the Merge option and the default (reset first) through the real
// protobuf-go dispatch (proto.UnmarshalOptions.Unmarshal -> Reset / ProtoMethods).
func (g *gen) libraryDecode(m *Message) {
	n := m.GoName
	var sf *Field
	for _, f := range m.Fields {
		if f.Card == "singular" && f.Kind != "message" {
			sf = f
			break
		}
	}
	if sf == nil {
		return
	}
	g.p("func VH_C03_%s__mergeoption() {", n)
	g.p("\tx := &%s{}", n)
	g.p("\tvhFill_%s(x)", n)
	g.p("\tmerge := vhChoice(\"merge\", 2) == 1")
	g.p("\tvar exp *%s", n)
	g.p("\tif merge {")
	g.p("\t\texp = vhClone_%s(x)", n)
	g.p("\t} else {")
	g.p("\t\texp = &%s{} // without Merge the message is reset first", n)
	g.p("\t}")
	g.p("\tvar rec []byte")
	g.p("\trec = vhTag(rec, %d, protowire.%sType, \"r\")", sf.Number, wireKind(sf))
	g.decodeWire(sf, "rec", "\"v\"", "\t")
	if sf.Kind == "bytes" {
		g.p("\texp.%s = vhCloneBytes(val)", sf.GoName)
	} else {
		g.p("\texp.%s = val", sf.GoName)
	}
	g.p("\terr := proto.UnmarshalOptions{Merge: merge}.Unmarshal(rec, x)")
	g.p("\tvhAssert(\"accepts\", err == nil)")
	g.p("\tvhAssertEq_%s(\"step\", exp, x)", n)
	g.p("}")
	g.p("")
}

// concatDecode: decoding rec1 ++ rec2 in one call equals decoding rec1 and then rec2
// (the composition premise behind the one-record inductive steps), on the real closure.
func (g *gen) concatDecode(m *Message) {
	n := m.GoName
	var fs []*Field
	for _, f := range m.All {
		if f.Kind != "message" && f.Card != "map" {
			fs = append(fs, f)
		}
		if len(fs) == 2 {
			break
		}
	}
	if len(fs) == 0 {
		return
	}
	if len(fs) == 1 {
		fs = append(fs, fs[0])
	}
	g.p("func VH_C03_%s__concat() {", n)
	g.p("\tx := &%s{}", n)
	g.p("\tif vhChoice(\"filled\", 2) == 1 {")
	g.p("\t\tvhFill_%s(x)", n)
	g.p("\t}")
	g.p("\texp := vhClone_%s(x)", n)
	for i, f := range fs {
		g.p("\tvar rec%d []byte", i)
		g.p("\trec%d = vhTag(rec%d, %d, protowire.%sType, \"r%d\")", i, i, f.Number, wireKind(f), i)
		g.p("\tfunc() {")
		mark := g.sb.Len()
		g.decodeWire(f, fmt.Sprintf("rec%d", i), fmt.Sprintf("\"v%d\"", i), "\t\t")
		// composition does not depend on magnitudes: one-byte varints keep the path count small
		seg := g.sb.String()[mark:]
		seg = regexp.MustCompile(`raw := vhU64\(("[^"]*")\)`).ReplaceAllString(seg, "raw := uint64(vhU8($1) & 0x7f)")
		seg = regexp.MustCompile(`vh(String|Bytes)\(("[^"]*"), \d+\)`).ReplaceAllString(seg, "vh$1($2, 3)")
		all := g.sb.String()[:mark]
		g.sb.Reset()
		g.sb.WriteString(all)
		g.sb.WriteString(seg)
		g.p("\t\t_ = val")
		g.p("\t}()")
	}
	g.p("\t// the unknown record in between must not disturb either neighbour")
	g.p("\tmid := []byte{0x80, 0xa4, 0x3c, 0x07}")
	g.p("\te0 := vhUnmarshalStep_%s(exp, rec0, 0)", n)
	g.p("\te1 := vhUnmarshalStep_%s(exp, mid, 0)", n)
	g.p("\te2 := vhUnmarshalStep_%s(exp, rec1, 0)", n)
	g.p("\tvhAssert(\"steps.accept\", e0 == nil && e1 == nil && e2 == nil)")
	g.p("\tall := append(append(append([]byte{}, rec0...), mid...), rec1...)")
	g.p("\terr := vhUnmarshalStep_%s(x, all, 0)", n)
	g.p("\tvhAssert(\"accepts\", err == nil)")
	g.p("\tvhAssertEq_%s(\"concat\", exp, x)", n)
	g.p("}")
	g.p("")
}

func (g *gen) decodeDrivers(m *Message) {
	n := m.GoName
	g.p("func vhUnmarshalStep_%s(x *%s, buf []byte, flags protoiface.UnmarshalInputFlags) error {", n, n)
	g.p("\tm := x.ProtoReflect()")
	g.p("\t_, err := m.ProtoMethods().Unmarshal(protoiface.UnmarshalInput{Message: m, Buf: buf, Flags: flags, Depth: 10000})")
	g.p("\treturn err")
	g.p("}")
	g.p("")
}

// unknownStep emits C14 harnesses: unknown records at top level and nested.
func (g *gen) unknownStep(m *Message) {
	n := m.GoName
	g.p("// an unknown record is appended byte for byte, or dropped with DiscardUnknown; nothing else changes")
	g.p("func VH_C14_%s_top() {", n)
	g.p("\tx := &%s{}", n)
	g.p("\tif vhChoice(\"filled\", 2) == 1 {")
	g.p("\t\tvhFill_%s(x)", n)
	g.p("\t}")
	g.p("\tif vhChoice(\"preunk\", 2) == 1 {")
	g.p("\t\tx.unknownFields = vhBytes(\"pre\", 6) // earlier unknown records: arbitrary bytes, only ever appended to")
	g.p("\t}")
	g.p("\texp := vhClone_%s(x)", n)
	g.p("\trec := vhUnknownG_%s(\"u\")", n)
	g.p("\tdiscard := vhU8(\"discard\") & 1")
	g.p("\terr := vhUnmarshalStep_%s(x, rec, protoiface.UnmarshalInputFlags(discard)*protoiface.UnmarshalDiscardUnknown)", n)
	g.p("\tvhAssert(\"accepts\", err == nil)")
	g.p("\tif discard == 0 {")
	g.p("\t\texp.unknownFields = append(exp.unknownFields, rec...)")
	g.p("\t}")
	g.p("\tvhAssertEq_%s(\"step\", exp, x)", n)
	g.p("\t// GetUnknown/SetUnknown read and replace exactly that set")
	g.p("\tvhAssertBytesEq(\"getunknown\", []byte(x.ProtoReflect().GetUnknown()), x.unknownFields)")
	g.p("\trepl := vhBytes(\"repl\", 8)")
	g.p("\tx.ProtoReflect().SetUnknown(protoreflect.RawFields(repl))")
	g.p("\tvhAssertBytesEq(\"setunknown\", x.unknownFields, repl)")
	g.p("}")
	g.p("")
	// group-capable unknown builder
	g.p("// vhUnknownG_%s: like vhUnknown_%s plus groups (one level, 0..1 inner varint record).", n, n)
	g.p("func vhUnknownG_%s(p string) []byte {", n)
	g.p("\tif vhChoice(p+\".group\", 2) == 0 {")
	g.p("\t\treturn vhUnknown_%s(p)", n)
	g.p("\t}")
	g.p("\tnum := vhI32(p + \".gnum\")")
	g.p("\tvhAssume(num >= 1)")
	g.p("\tvhAssume(num <= 536870911)")
	for _, f := range m.All {
		g.p("\tvhAssume(num != %d)", f.Number)
	}
	g.p("\tvar b []byte")
	g.p("\tb = protowire.AppendTag(b, protowire.Number(num), protowire.StartGroupType)")
	g.p("\tif vhChoice(p+\".inner\", 2) == 1 {")
	g.p("\t\tinum := vhI32(p + \".inum\")")
	g.p("\t\tvhAssume(inum >= 1)")
	g.p("\t\tvhAssume(inum <= 536870911)")
	g.p("\t\tb = protowire.AppendTag(b, protowire.Number(inum), protowire.VarintType)")
	g.p("\t\tb = protowire.AppendVarint(b, vhU64(p+\".iv\"))")
	g.p("\t}")
	g.p("\tb = protowire.AppendTag(b, protowire.Number(num), protowire.EndGroupType)")
	g.p("\treturn b")
	g.p("}")
	g.p("")
	// known field never lands in unknown: covered by C03 frame (unknownFields equality in vhAssertEq)
	// nested placement
	for _, f := range m.All {
		if f.Kind != "message" || (f.MsgName == "" && f.Card != "map") {
			continue
		}
		tn := f.MsgName
		valF := f
		if f.Card == "map" {
			if f.Val.Kind != "message" || f.Val.MsgName == "" {
				continue
			}
			valF = f.Val
			tn = f.Val.MsgName
		}
		_ = valF
		g.p("// unknown record inside the nested message of field %s (%s)", f.GoName, f.Card)
		g.p("func VH_C14_%s_nested_%s() {", n, f.GoName)
		g.p("\tx := &%s{}", n)
		g.p("\texp := &%s{}", n)
		g.p("\tunk := vhUnknownG_%s(\"u\")", tn)
		g.p("\tdiscard := vhU8(\"discard\") & 1")
		g.p("\tT := &%s{}", tn)
		g.p("\tif discard == 0 {")
		g.p("\t\tT.unknownFields = append(T.unknownFields, unk...)")
		g.p("\t}")
		g.p("\tvar rec []byte")
		switch f.Card {
		case "singular":
			g.p("\trec = protowire.AppendTag(rec, %d, protowire.BytesType)", f.Number)
			g.p("\trec = protowire.AppendBytes(rec, unk)")
			g.p("\texp.%s = T", f.GoName)
		case "repeated":
			g.p("\trec = protowire.AppendTag(rec, %d, protowire.BytesType)", f.Number)
			g.p("\trec = protowire.AppendBytes(rec, unk)")
			g.p("\texp.%s = append(exp.%s, T)", f.GoName, f.GoName)
		case "oneof":
			g.p("\trec = protowire.AppendTag(rec, %d, protowire.BytesType)", f.Number)
			g.p("\trec = protowire.AppendBytes(rec, unk)")
			g.p("\texp.%s = &%s{%s: T}", f.Oneof.GoName, f.Wrapper, f.WField)
		case "map":
			g.p("\tvar entry []byte")
			g.p("\tentry = protowire.AppendTag(entry, 2, protowire.BytesType)")
			g.p("\tentry = protowire.AppendBytes(entry, unk)")
			g.p("\trec = protowire.AppendTag(rec, %d, protowire.BytesType)", f.Number)
			g.p("\trec = protowire.AppendBytes(rec, entry)")
			g.p("\tvar zk %s", f.Key.GoType)
			g.p("\texp.%s = %s{zk: T}", f.GoName, f.MapGo)
		}
		g.p("\terr := vhUnmarshalStep_%s(x, rec, protoiface.UnmarshalInputFlags(discard)*protoiface.UnmarshalDiscardUnknown)", n)
		g.p("\tvhAssert(\"accepts\", err == nil)")
		g.p("\tvhAssertEq_%s(\"step\", exp, x)", n)
		g.p("}")
		g.p("")
	}
	// re-encode position: unknown bytes unchanged after known fields is part of the spec encoder (C02);
	// asserted here on a filled message
	g.p("func VH_C14_%s_reencode() {", n)
	g.p("\tx := &%s{}", n)
	g.p("\tvhFill_%s(x)", n)
	g.p("\tunk := vhBytes(\"u\", 12) // marshal copies the stored bytes verbatim: content is arbitrary")
	g.p("\tx.unknownFields = unk")
	g.p("\tmsg := x.ProtoReflect()")
	g.p("\tout, err := msg.ProtoMethods().Marshal(protoiface.MarshalInput{Message: msg, Flags: vhFlags(\"det\")})")
	g.p("\tvhAssert(\"marshal.noerr\", err == nil)")
	g.p("\tsz := msg.ProtoMethods().Size(protoiface.SizeInput{Message: msg}).Size")
	g.p("\tvhAssert(\"size.counts\", sz == len(out.Buf))")
	g.p("\tif len(out.Buf) >= len(unk) {")
	g.p("\t\tvhAssertBytesEq(\"suffix\", out.Buf[len(out.Buf)-len(unk):], unk)")
	g.p("\t}")
	g.p("}")
	g.p("")
}

// DecodeSource generates the harness file for C03 / C14.
func (g *gen) DecodeSource(props []string, msgs []*Message, h2 bool, fieldFilter func(m *Message, f *Field) bool) string {
	g.lightAny = true
	if g.pick > 2 {
		g.pick = 2
	}
	g.propTag = props[0]
	g.mapN, g.listN = 1, 1 // pre-state containers: the step is from an arbitrary pre-state, one element suffices to expose concat/merge
	g.header()
	g.driversOnce()
	g.decodeCommon()
	for _, m := range g.s.Msgs {
		g.specMessage(m)
		for _, f := range m.All {
			g.buildField(m, f)
		}
		g.anyMessage(m)
		g.fillMessage(m)
		g.eqMessage(m)
		g.cloneMessage(m)
		g.decodeDrivers(m)
	}
	for _, m := range msgs {
		for _, prop := range props {
			switch prop {
			case "C03":
				g.libraryDecode(m)
				g.concatDecode(m)
				for _, f := range m.All {
					if fieldFilter != nil && !fieldFilter(m, f) {
						continue
					}
					g.decodeStep(m, f, false)
					if h2 && g.wantH2("C03", m, f) {
						g.decodeStep(m, f, true)
					}
				}
			case "C14":
				g.unknownStep(m)
			}
		}
	}
	return g.sb.String()
}

// ---------- C06: totality ----------

func (g *gen) totalCommon() {
	g.p("// vhWalk visits a message the way generic library code (Equal, CheckInitialized, Range")
	g.p("// based encoders) does: every populated field, list element and map value, recursively.")
	g.p("func vhWalk(m protoreflect.Message, d int) {")
	g.p("\tm.Range(func(fd protoreflect.FieldDescriptor, v protoreflect.Value) bool {")
	g.p("\t\tisMsg := fd.Kind() == protoreflect.MessageKind")
	g.p("\t\tswitch {")
	g.p("\t\tcase fd.IsMap():")
	g.p("\t\t\tvalMsg := fd.MapValue().Kind() == protoreflect.MessageKind")
	g.p("\t\t\tv.Map().Range(func(k protoreflect.MapKey, mv protoreflect.Value) bool {")
	g.p("\t\t\t\tif valMsg && d > 0 {")
	g.p("\t\t\t\t\tvhWalk(mv.Message(), d-1)")
	g.p("\t\t\t\t}")
	g.p("\t\t\t\treturn true")
	g.p("\t\t\t})")
	g.p("\t\tcase fd.IsList():")
	g.p("\t\t\tl := v.List()")
	g.p("\t\t\tfor i := 0; i < l.Len(); i++ {")
	g.p("\t\t\t\tif isMsg && d > 0 {")
	g.p("\t\t\t\t\tvhWalk(l.Get(i).Message(), d-1)")
	g.p("\t\t\t\t}")
	g.p("\t\t\t}")
	g.p("\t\tcase isMsg:")
	g.p("\t\t\tif d > 0 {")
	g.p("\t\t\t\tvhWalk(v.Message(), d-1)")
	g.p("\t\t\t}")
	g.p("\t\t}")
	g.p("\t\treturn true")
	g.p("\t})")
	g.p("}")
	g.p("")
	g.p("// vhSpanning builds the bytes following a tag with wire type wt so that the first")
	g.p("// record either fails to parse or extends exactly to the end of the buffer (one")
	g.p("// iteration of the record loop from an arbitrary pre-state; longer inputs follow by")
	g.p("// induction because the loop carries only the message and the index). payloadMax")
	g.p("// bounds the payload of length-delimited records.")
	g.p("func vhSpanning(wt int, payloadMax int) []byte {")
	g.p("\tswitch wt {")
	g.p("\tcase 0:")
	g.p("\t\trest := vhBytes(\"varint\", 11)")
	g.p("\t\tfor i := 0; i+1 < len(rest); i++ {")
	g.p("\t\t\tvhAssume(rest[i] >= 0x80)")
	g.p("\t\t}")
	g.p("\t\treturn rest")
	g.p("\tcase 1:")
	g.p("\t\treturn vhBytes(\"fixed64\", 8)")
	g.p("\tcase 5:")
	g.p("\t\treturn vhBytes(\"fixed32\", 4)")
	g.p("\tcase 2:")
	g.p("\t\tpayload := vhBytes(\"payload\", payloadMax)")
	g.p("\t\tdecl := vhU64(\"decl\")")
	if g.tier != "thorough" {
		g.p("\t\t// quick tier: three regimes of the declared length instead of all ten varint sizes:")
		g.p("\t\t// honest, a small overshoot, and huge (>= 2^56, incl. negative as int)")
		g.p("\t\tswitch vhChoice(\"regime\", 3) {")
		g.p("\t\tcase 0:")
		g.p("\t\t\tvhAssume(decl == uint64(len(payload)))")
		g.p("\t\tcase 1:")
		g.p("\t\t\tvhAssume(decl > uint64(len(payload)) && decl < uint64(len(payload))+100)")
		g.p("\t\tcase 2:")
		g.p("\t\t\tvhAssume(decl >= 1<<56)")
		g.p("\t\t}")
	}
	g.p("\t\t// the declared length is arbitrary (also negative/huge as int) but never")
	g.p("\t\t// shorter than what follows, so the record cannot end before the buffer does")
	g.p("\t\tvhAssume(int64(decl) < 0 || decl >= uint64(len(payload)))")
	g.p("\t\tvar b []byte")
	g.p("\t\tif vhChoice(\"lenpad\", 2) == 1 && protowire.SizeVarint(decl) < 10 {")
	g.p("\t\t\tn := protowire.SizeVarint(decl)")
	g.p("\t\t\tfor i := 0; i < n; i++ {")
	g.p("\t\t\t\tb = append(b, byte(decl>>(7*uint(i)))|0x80)")
	g.p("\t\t\t}")
	g.p("\t\t\tb = append(b, 0)")
	g.p("\t\t} else {")
	g.p("\t\t\tb = protowire.AppendVarint(b, decl)")
	g.p("\t\t}")
	g.p("\t\treturn append(b, payload...)")
	g.p("\t}")
	g.p("\t// groups and invalid wire types: a few arbitrary bytes")
	g.p("\treturn vhBytes(\"other\", 3)")
	g.p("}")
	g.p("")
}

func (g *gen) totalField(m *Message, f *Field) {
	n := m.GoName
	payloadMax := g.smallPayload
	if (f.Kind == "string" || f.Kind == "bytes") && f.Card != "map" {
		payloadMax = g.strLen
	}
	if f.Kind == "message" && f.Card != "map" {
		payloadMax = g.strLen // nested decode is stubbed (assume-guarantee), payload is only sliced
	}
	if f.Card == "map" && payloadMax > 4 {
		// thorough: 4 bytes hold a complete entry (key and value sub-records); with 5 the
		// sint32-keyed map alone ran past an hour (measured), the others took 8 minutes
		payloadMax = 4
	}
	g.p("// one arbitrary (possibly ill-typed) record for field %s decoded into an arbitrary pre-state", f.GoName)
	tag := ""
	if f.Card == "map" && f.Val.Kind == "message" {
		tag = "_mapmsg"
	}
	g.p("func VH_C06_%s_%s%s() {", n, f.GoName, tag)
	g.p("\tx := &%s{}", n)
	g.p("\t// pre-state: empty, or every field populated with fixed values (what the record meets")
	g.p("\t// matters for aliasing/merging paths, not the magnitudes)")
	g.p("\tif vhChoice(\"pre\", 2) == 1 {")
	g.p("\t\tvhFill_%s(x)", n)
	g.p("\t}")
	g.p("\twt := vhChoice(\"wt\", 8)")
	g.p("\tbuf := protowire.AppendVarint(nil, uint64(%d)<<3|uint64(wt))", f.Number)
	g.p("\tbuf = append(buf, vhSpanning(wt, %d)...)", payloadMax)
	g.p("\tvhTotal_%s(x, buf)", n)
	g.p("}")
	g.p("")
}

func (g *gen) totalMessage(m *Message, anyN int) {
	n := m.GoName
	g.p("func vhTotal_%s(x *%s, buf []byte) {", n, n)
	g.p("\tbuf = buf[:len(buf):len(buf)] // no spare capacity behind the input: reading past len must not be masked")
	g.p("\tmsg := x.ProtoReflect()")
	g.p("\tmethods := msg.ProtoMethods()")
	g.p("\tvhAllocReset()")
	g.p("\tvhStubNested(true) // nested messages: assume-guarantee (their own harnesses prove them)")
	// the decoder consumes at least one byte per loop iteration and these inputs are a dozen
	// bytes: a tight unwinding bound reaches a non-terminating path (reported with its
	// inputs and replayed natively) in a fraction of the time the default bound needs
	lb := 16
	if anyN+4 > lb {
		lb = anyN + 4
	}
	g.p("\tvhSetLoopBound(%d)", lb)
	g.p("\t_, err := methods.Unmarshal(protoiface.UnmarshalInput{Message: msg, Buf: buf, Depth: 10000})")
	g.p("\tvhSetLoopBound(40)")
	g.p("\tvhStubNested(false)")
	g.p("\t// allocation proportional to the input (8 bytes per input byte for the widest packed kind)")
	g.p("\tvhAssert(\"alloc.bound\", vhAllocTotal() <= 8*len(buf)+64)")
	g.p("\tif err == nil {")
	g.p("\t\t// an accepted message can be sized and marshalled")
	g.p("\t\tsz := methods.Size(protoiface.SizeInput{Message: msg}).Size")
	g.p("\t\tout, merr := methods.Marshal(protoiface.MarshalInput{Message: msg})")
	g.p("\t\tvhAssert(\"post.marshal\", merr == nil && len(out.Buf) == sz)")
	g.p("\t\t// ... and ranged over recursively, as proto.Equal / CheckInitialized do")
	g.p("\t\tvhAssert(\"post.walk.nopanic\", !vhCatch(func() { vhWalk(msg, 1) }))")
	g.p("\t}")
	g.p("}")
	g.p("")
	g.p("// unknown / out-of-range / non-minimal tags: fully arbitrary short buffers")
	g.p("func VH_C06_%s_anybytes() {", n)
	g.p("\tx := &%s{}", n)
	g.p("\tbuf := vhBytes(\"buf\", %d)", anyN)
	g.p("\t// known field numbers with a minimal tag are covered per field; keep the rest")
	g.p("\tvhTotal_%s(x, buf)", n)
	g.p("}")
	g.p("")
	g.p("// an unknown group holding a length-delimited member whose declared length is arbitrary (also huge)")
	g.p("func VH_C06_%s_unknowngroup() {", n)
	g.p("\tx := &%s{}", n)
	g.p("\tnum := vhI32(\"num\")")
	g.p("\tvhAssume(num >= 1)")
	g.p("\tvhAssume(num <= 536870911)")
	for _, f := range m.All {
		g.p("\tvhAssume(num != %d)", f.Number)
	}
	g.p("\tbuf := protowire.AppendTag(nil, protowire.Number(num), protowire.StartGroupType)")
	g.p("\tbuf = protowire.AppendTag(buf, 1, protowire.BytesType)")
	g.p("\tbuf = protowire.AppendVarint(buf, vhU64(\"decl\"))")
	g.p("\tbuf = append(buf, vhBytes(\"rest\", 3)...)")
	g.p("\tvhTotal_%s(x, buf)", n)
	g.p("}")
	g.p("")
	// recursion budget through the real library dispatch
	for _, f := range m.All {
		if f.Kind != "message" || f.MsgName == "" || f.Card == "map" {
			continue
		}
		g.p("// nesting deeper than the recursion limit is rejected (limit 1: only the top level fits)")
		g.p("func VH_C06_%s_depth_%s() {", n, f.GoName)
		g.p("\tx := &%s{}", n)
		g.p("\tvar rec []byte")
		g.p("\trec = protowire.AppendTag(rec, %d, protowire.BytesType)", f.Number)
		g.p("\trec = protowire.AppendBytes(rec, nil)")
		g.p("\terr := proto.UnmarshalOptions{RecursionLimit: 1}.Unmarshal(rec, x)")
		g.p("\tvhAssert(\"depth.rejected\", err != nil)")
		g.p("}")
		g.p("")
		break
	}
}

func (g *gen) TotalSource(msgs []*Message, fieldFilter func(m *Message, f *Field) bool, anyN int) string {
	g.lightAny = true
	g.pick = 1
	g.propTag = "C06"
	g.mapN, g.listN = 1, 1 // pre-state containers: the step is from an arbitrary pre-state, one element suffices to expose concat/merge
	g.header()
	g.driversOnce()
	g.decodeCommon()
	g.totalCommon()
	for _, m := range g.s.Msgs {
		g.specMessage(m)
		for _, f := range m.All {
			g.buildField(m, f)
		}
		g.anyMessage(m)
		g.fillMessage(m)
		g.totalMessage(m, anyN)
	}
	for _, m := range msgs {
		for _, f := range m.All {
			if fieldFilter != nil && !fieldFilter(m, f) {
				continue
			}
			g.totalField(m, f)
		}
	}
	return g.sb.String()
}
