package main

import (
	"fmt"
	"strings"
)

func fdVar(m *Message, f *Field) string { return "fd_" + m.GoName + "_" + f.Name }

// pvOf returns the expression wrapping Go value v of field kind f into a protoreflect.Value.
func pvOf(f *Field, v string) string {
	switch f.Kind {
	case "int32", "sint32", "sfixed32":
		return "protoreflect.ValueOfInt32(" + v + ")"
	case "int64", "sint64", "sfixed64":
		return "protoreflect.ValueOfInt64(" + v + ")"
	case "uint32", "fixed32":
		return "protoreflect.ValueOfUint32(" + v + ")"
	case "uint64", "fixed64":
		return "protoreflect.ValueOfUint64(" + v + ")"
	case "bool":
		return "protoreflect.ValueOfBool(" + v + ")"
	case "float":
		return "protoreflect.ValueOfFloat32(" + v + ")"
	case "double":
		return "protoreflect.ValueOfFloat64(" + v + ")"
	case "string":
		return "protoreflect.ValueOfString(" + v + ")"
	case "bytes":
		return "protoreflect.ValueOfBytes(" + v + ")"
	case "enum":
		return "protoreflect.ValueOfEnum(protoreflect.EnumNumber(" + v + "))"
	case "message":
		return "protoreflect.ValueOfMessage(" + v + ".ProtoReflect())"
	}
	panic("pvOf " + f.Kind)
}

// pvGet returns the expression unwrapping protoreflect.Value pv to the Go type of kind f.
func pvGet(f *Field, pv string) string {
	t := scalarGo(f)
	switch f.Kind {
	case "int32", "sint32", "sfixed32", "int64", "sint64", "sfixed64":
		return t + "(" + pv + ".Int())"
	case "uint32", "fixed32", "uint64", "fixed64":
		return t + "(" + pv + ".Uint())"
	case "bool":
		return pv + ".Bool()"
	case "float":
		return "float32(" + pv + ".Float())"
	case "double":
		return pv + ".Float()"
	case "string":
		return pv + ".String()"
	case "bytes":
		return pv + ".Bytes()"
	case "enum":
		return t + "(" + pv + ".Enum())"
	case "message":
		return pv + ".Message().Interface().(*" + f.MsgName + ")"
	}
	panic("pvGet " + f.Kind)
}

// assertSame emits an assertion that Go values a and b of kind f are identical
// (messages: pointer identity).
func (g *gen) assertSame(f *Field, id, a, b, ind string) {
	switch f.Kind {
	case "float":
		g.p("%svhAssert(%s, math.Float32bits(%s) == math.Float32bits(%s))", ind, id, a, b)
	case "double":
		g.p("%svhAssert(%s, math.Float64bits(%s) == math.Float64bits(%s))", ind, id, a, b)
	case "string":
		g.p("%svhAssertStrEq(%s, %s, %s)", ind, id, a, b)
	case "bytes":
		g.p("%svhAssertBytesEq(%s, %s, %s)", ind, id, a, b)
	default:
		g.p("%svhAssert(%s, %s == %s)", ind, id, a, b)
	}
}

func getterName(m *Message, f *Field) string {
	name := f.GoName
	if f.Card == "oneof" {
		name = f.WField
	}
	return "Get" + name
}

// reflPre emits the pre-state: every other field populated, target field arbitrary.
func (g *gen) reflPre(m *Message, f *Field, depth int) {
	n := m.GoName
	g.p("\tx := &%s{}", n)
	g.p("\tvhFill_%s(x)", n)
	if f.Card == "oneof" {
		g.p("\tx.%s = nil", f.Oneof.GoName)
		g.p("\tswitch vhChoice(\"pre.sel\", %d) {", len(f.Oneof.Members)+1)
		g.p("\tcase 0:")
		g.p("\t\tvhBuild_%s_%s(x, \"pre\", %d)", n, f.GoName, depth)
		k := 1
		for _, sib := range f.Oneof.Members {
			if sib == f {
				continue
			}
			g.p("\tcase %d:", k)
			g.p("\t\tvhBuild_%s_%s(x, \"presib\", 0)", n, sib.GoName)
			k++
		}
		g.p("\t}")
	} else {
		g.p("\tx.%s = %s", f.GoName, zeroLit(f))
		g.p("\tvhBuild_%s_%s(x, \"pre\", %d)", n, f.GoName, depth)
	}
	g.p("\texp := vhClone_%s(x)", n)
	g.p("\tm := x.ProtoReflect()")
	g.p("\tfd := %s", fdVar(m, f))
}

func (g *gen) reflScalar(m *Message, f *Field) {
	n := m.GoName
	isOneof := f.Card == "oneof"
	cur := "exp." + f.GoName
	g.p("func vhC08_%s_%s(op int) {", n, f.GoName)
	g.reflPre(m, f, 0)
	if isOneof {
		g.p("\tvar cur %s", scalarGo(f))
		g.p("\tsel := false")
		g.p("\tif o, ok := exp.%s.(*%s); ok {", f.Oneof.GoName, f.Wrapper)
		g.p("\t\tcur, sel = o.%s, true", f.WField)
		g.p("\t}")
		cur = "cur"
	}
	present := presentCond(f, cur)
	if isOneof {
		present = "sel"
	}
	g.p("\tswitch op {")
	g.p("\tcase 0: // Has, Get, getter: read-only and consistent with the struct")
	g.p("\t\tvhAssert(\"has\", m.Has(fd) == (%s))", present)
	g.p("\t\tgot := m.Get(fd)")
	g.assertSame(f, "\"get\"", pvGet(f, "got"), cur, "\t\t")
	g.assertSame(f, "\"getter\"", "x."+getterName(m, f)+"()", cur, "\t\t")
	g.p("\tcase 1: // Set replaces the value (and selects the oneof member)")
	g.p("\t\tv := %s", g.symExpr(f, "\"v\"", 4))
	g.p("\t\tm.Set(fd, %s)", pvOf(f, "v"))
	if isOneof {
		g.p("\t\texp.%s = &%s{%s: v}", f.Oneof.GoName, f.Wrapper, f.WField)
	} else {
		g.p("\t\texp.%s = v", f.GoName)
	}
	g.p("\tcase 2: // Clear resets this field only; clearing a oneof member that is not selected changes nothing")
	g.p("\t\tm.Clear(fd)")
	if isOneof {
		g.p("\t\tif sel {")
		g.p("\t\t\texp.%s = nil", f.Oneof.GoName)
		g.p("\t\t}")
	} else {
		g.p("\t\texp.%s = %s", f.GoName, zeroLit(f))
	}
	g.p("\t\tvhAssert(\"clear.has\", !m.Has(fd))")
	g.p("\tcase 3: // Mutable is only for composite fields")
	g.p("\t\tvhAssert(\"mutable.panics\", vhCatch(func() { m.Mutable(fd) }))")
	g.p("\tcase 4: // NewField yields the default without touching the message")
	g.p("\t\tnv := m.NewField(fd)")
	g.p("\t\tvar zero %s", scalarGo(f))
	g.assertSame(f, "\"newfield\"", pvGet(f, "nv"), "zero", "\t\t")
	g.p("\tcase 5: // Range visits the field iff populated, once, with its value")
	g.p("\t\tcnt := 0")
	g.p("\t\tm.Range(func(d protoreflect.FieldDescriptor, v protoreflect.Value) bool {")
	g.p("\t\t\tif d == fd {")
	g.p("\t\t\t\tcnt++")
	g.assertSame(f, "\"range.value\"", pvGet(f, "v"), cur, "\t\t\t\t")
	g.p("\t\t\t}")
	g.p("\t\t\treturn true")
	g.p("\t\t})")
	g.p("\t\tif %s {", present)
	g.p("\t\t\tvhAssert(\"range.once\", cnt == 1)")
	g.p("\t\t} else {")
	g.p("\t\t\tvhAssert(\"range.absent\", cnt == 0)")
	g.p("\t\t}")
	g.p("\t}")
	if isOneof {
		g.p("\t// WhichOneof agrees with the selected member")
		g.p("\tw := x.ProtoReflect().WhichOneof(fd.ContainingOneof())")
		g.p("\tif _, ok := x.%s.(*%s); ok {", f.Oneof.GoName, f.Wrapper)
		g.p("\t\tvhAssert(\"whichoneof.this\", w == fd)")
		g.p("\t} else {")
		g.p("\t\tvhAssert(\"whichoneof.other\", w != fd)")
		g.p("\t\tvhAssert(\"whichoneof.unset\", (w == nil) == (x.%s == nil))", f.Oneof.GoName)
		g.p("\t}")
	}
	g.p("\tvhAssertEq_%s(\"state\", exp, x)", n)
	g.p("}")
	g.p("")
	for k, on := range []string{"read","set","clear","mutable","newfield","range"} {
		if on == "" {
			continue
		}
		g.p("func VH_C08_%s_%s_%s() { vhC08_%s_%s(%d) }", n, f.GoName, on, n, f.GoName, k)
	}
	g.p("")
}
func (g *gen) reflMessage(m *Message, f *Field) {
	n := m.GoName
	isOneof := f.Card == "oneof"
	g.p("func vhC08_%s_%s(op int) {", n, f.GoName)
	g.reflPre(m, f, 1)
	if isOneof {
		g.p("\tvar curx, cure *%s", f.MsgName)
		g.p("\tsel := false")
		g.p("\tif o, ok := x.%s.(*%s); ok {", f.Oneof.GoName, f.Wrapper)
		g.p("\t\tcurx, sel = o.%s, true", f.WField)
		g.p("\t\tcure = exp.%s.(*%s).%s", f.Oneof.GoName, f.Wrapper, f.WField)
		g.p("\t}")
		g.p("\t_ = cure")
	} else {
		g.p("\tcurx := x.%s", f.GoName)
		g.p("\tsel := curx != nil")
	}
	setExp := func(v string) string {
		if isOneof {
			return fmt.Sprintf("exp.%s = &%s{%s: %s}", f.Oneof.GoName, f.Wrapper, f.WField, v)
		}
		return fmt.Sprintf("exp.%s = %s", f.GoName, v)
	}
	g.p("\tswitch op {")
	g.p("\tcase 0: // Has / Get / getter")
	if isOneof {
		g.p("\t\tvhAssert(\"has\", m.Has(fd) == sel)")
	} else {
		g.p("\t\tvhAssert(\"has\", m.Has(fd) == sel)")
	}
	g.p("\t\tgot := m.Get(fd).Message()")
	g.p("\t\tif curx != nil {")
	g.p("\t\t\tvhAssert(\"get.valid\", got.IsValid())")
	g.p("\t\t\tvhAssert(\"get.same\", got.Interface().(*%s) == curx)", f.MsgName)
	g.p("\t\t} else {")
	g.p("\t\t\tvhAssert(\"get.invalid\", !got.IsValid())")
	g.p("\t\t}")
	g.p("\t\tvhAssert(\"getter\", x.%s() == curx)", getterName(m, f))
	g.p("\tcase 1: // Set stores exactly the given message")
	g.p("\t\tv := &%s{}", f.MsgName)
	g.p("\t\tvhFill_%s(v)", f.MsgName)
	g.p("\t\tm.Set(fd, %s)", pvOf(f, "v"))
	g.p("\t\t%s", setExp("v"))
	if isOneof {
		g.p("\t\to, ok := x.%s.(*%s)", f.Oneof.GoName, f.Wrapper)
		g.p("\t\tvhAssert(\"set.same\", ok && o.%s == v)", f.WField)
	} else {
		g.p("\t\tvhAssert(\"set.same\", x.%s == v)", f.GoName)
	}
	g.p("\tcase 2: // Clear")
	g.p("\t\tm.Clear(fd)")
	if isOneof {
		g.p("\t\tif sel {")
		g.p("\t\t\texp.%s = nil", f.Oneof.GoName)
		g.p("\t\t}")
	} else {
		g.p("\t\texp.%s = nil", f.GoName)
	}
	g.p("\t\tvhAssert(\"clear.has\", !m.Has(fd))")
	g.p("\tcase 3: // Mutable returns the existing message or allocates one, attached to the parent")
	g.p("\t\tmv := m.Mutable(fd).Message()")
	g.p("\t\tvhAssert(\"mutable.valid\", mv.IsValid())")
	g.p("\t\tmp := mv.Interface().(*%s)", f.MsgName)
	g.p("\t\tif curx != nil {")
	g.p("\t\t\tvhAssert(\"mutable.existing\", mp == curx)")
	g.p("\t\t} else {")
	g.p("\t\t\t%s", setExp("&"+f.MsgName+"{}"))
	g.p("\t\t}")
	if isOneof {
		g.p("\t\to, ok := x.%s.(*%s)", f.Oneof.GoName, f.Wrapper)
		g.p("\t\tvhAssert(\"mutable.attached\", ok && o.%s == mp)", f.WField)
	} else {
		g.p("\t\tvhAssert(\"mutable.attached\", x.%s == mp)", f.GoName)
	}
	g.p("\tcase 4: // NewField: a new, valid, empty, detached message")
	g.p("\t\tnv := m.NewField(fd).Message()")
	g.p("\t\tvhAssert(\"newfield.valid\", nv.IsValid())")
	g.p("\t\tvhAssert(\"newfield.detached\", nv.Interface().(*%s) != curx)", f.MsgName)
	g.p("\t\tvhAssertEq_%s(\"newfield.empty\", &%s{}, nv.Interface().(*%s))", f.MsgName, f.MsgName, f.MsgName)
	g.p("\tcase 5: // Range")
	g.p("\t\tcnt := 0")
	g.p("\t\tm.Range(func(d protoreflect.FieldDescriptor, v protoreflect.Value) bool {")
	g.p("\t\t\tif d == fd {")
	g.p("\t\t\t\tcnt++")
	g.p("\t\t\t\tvhAssert(\"range.value\", v.Message().Interface().(*%s) == curx)", f.MsgName)
	g.p("\t\t\t}")
	g.p("\t\t\treturn true")
	g.p("\t\t})")
	g.p("\t\tif sel {")
	g.p("\t\t\tvhAssert(\"range.once\", cnt == 1)")
	g.p("\t\t} else {")
	g.p("\t\t\tvhAssert(\"range.absent\", cnt == 0)")
	g.p("\t\t}")
	g.p("\t}")
	g.p("\tvhAssertEq_%s(\"state\", exp, x)", n)
	g.p("}")
	g.p("")
	for k, on := range []string{"read","set","clear","mutable","newfield","range"} {
		if on == "" {
			continue
		}
		g.p("func VH_C08_%s_%s_%s() { vhC08_%s_%s(%d) }", n, f.GoName, on, n, f.GoName, k)
	}
	g.p("")
}
func (g *gen) reflList(m *Message, f *Field) {
	n := m.GoName
	isMsg := f.Kind == "message"
	g.p("func vhC08_%s_%s(op int) {", n, f.GoName)
	g.reflPre(m, f, 0)
	g.p("\told := len(x.%s)", f.GoName)
	elemSym := func(name string) string {
		if isMsg {
			return "func() *" + f.MsgName + " { t := &" + f.MsgName + "{}; vhFill_" + f.MsgName + "(t); return t }()"
		}
		return g.symExpr(f, name, 4)
	}
	expAppend := func(v string) string {
		if f.Kind == "bytes" {
			return fmt.Sprintf("exp.%s = append(exp.%s, vhCloneBytes(%s))", f.GoName, f.GoName, v)
		}
		return fmt.Sprintf("exp.%s = append(exp.%s, %s)", f.GoName, f.GoName, v)
	}
	g.p("\tswitch op {")
	g.p("\tcase 0: // Has / Get view / getter")
	g.p("\t\tvhAssert(\"has\", m.Has(fd) == (old > 0))")
	g.p("\t\tl := m.Get(fd).List()")
	g.p("\t\tvhAssert(\"get.len\", l.Len() == old)")
	g.p("\t\tvhAssert(\"get.valid\", l.IsValid() == (old > 0))")
	g.p("\t\tfor i := 0; i < old; i++ {")
	g.assertSame(f, "\"get.elem\"", pvGet(f, "l.Get(i)"), "x."+f.GoName+"[i]", "\t\t\t")
	g.p("\t\t}")
	g.p("\t\tvhAssert(\"getter.len\", len(x.%s()) == old)", getterName(m, f))
	g.p("\t\tif old == 0 {")
	g.p("\t\t\t// the empty read-only view must not silently accept data")
	g.p("\t\t\tv := %s", elemSym("\"rv\""))
	g.p("\t\t\tvhAssert(\"readonly.append.panics\", vhCatch(func() { l.Append(%s) }))", pvOf(f, "v"))
	g.p("\t\t}")
	g.p("\tcase 1: // Mutable view writes through: Append")
	g.p("\t\tl := m.Mutable(fd).List()")
	g.p("\t\tvhAssert(\"mutable.valid\", l.IsValid())")
	g.p("\t\tv := %s", elemSym("\"v\""))
	g.p("\t\tl.Append(%s)", pvOf(f, "v"))
	g.p("\t\t%s", expAppend("v"))
	g.p("\t\tvhAssert(\"append.len\", l.Len() == old+1)")
	g.p("\t\tif exp.%s == nil {", f.GoName)
	g.p("\t\t\texp.%s = %s{}", f.GoName, f.GoType)
	g.p("\t\t}")
	g.p("\tcase 2: // Set(i, v) through a Mutable view")
	g.p("\t\tif old > 0 {")
	g.p("\t\t\tl := m.Mutable(fd).List()")
	g.p("\t\t\ti := vhChoice(\"i\", old)")
	g.p("\t\t\tv := %s", elemSym("\"v\""))
	g.p("\t\t\tl.Set(i, %s)", pvOf(f, "v"))
	if f.Kind == "bytes" {
		g.p("\t\t\texp.%s[i] = vhCloneBytes(v)", f.GoName)
	} else {
		g.p("\t\t\texp.%s[i] = v", f.GoName)
	}
	g.p("\t\t}")
	g.p("\tcase 3: // Truncate then Append")
	g.p("\t\tl := m.Mutable(fd).List()")
	g.p("\t\tk := vhChoice(\"k\", old+1)")
	g.p("\t\tl.Truncate(k)")
	g.p("\t\texp.%s = exp.%s[:k]", f.GoName, f.GoName)
	g.p("\t\tvhAssert(\"truncate.len\", l.Len() == k && len(x.%s) == k)", f.GoName)
	g.p("\t\tv := %s", elemSym("\"v\""))
	g.p("\t\tl.Append(%s)", pvOf(f, "v"))
	g.p("\t\t%s", expAppend("v"))
	g.p("\t\tif exp.%s == nil {", f.GoName)
	g.p("\t\t\texp.%s = %s{}", f.GoName, f.GoType)
	g.p("\t\t}")
	g.p("\tcase 4: // Clear")
	g.p("\t\tm.Clear(fd)")
	g.p("\t\texp.%s = nil", f.GoName)
	g.p("\t\tvhAssert(\"clear.has\", !m.Has(fd))")
	g.p("\tcase 5: // Set(fd, list) with a list taken from another message of the same type")
	g.p("\t\tsrc := &%s{}", n)
	g.p("\t\tsl := src.ProtoReflect().Mutable(fd).List()")
	g.p("\t\tv := %s", elemSym("\"v\""))
	g.p("\t\tsl.Append(%s)", pvOf(f, "v"))
	g.p("\t\tm.Set(fd, protoreflect.ValueOfList(sl))")
	g.p("\t\texp.%s = nil", f.GoName)
	g.p("\t\t%s", expAppend("v"))
	g.p("\tcase 6: // NewField: empty, valid, detached")
	g.p("\t\tnl := m.NewField(fd).List()")
	g.p("\t\tvhAssert(\"newfield.empty\", nl.Len() == 0 && nl.IsValid())")
	g.p("\t\tv := %s", elemSym("\"v\""))
	g.p("\t\tnl.Append(%s)", pvOf(f, "v"))
	g.p("\t\tvhAssert(\"newfield.detached\", len(x.%s) == old)", f.GoName)
	if isMsg {
		g.p("\tcase 7: // AppendMutable / NewElement")
		g.p("\t\tl := m.Mutable(fd).List()")
		g.p("\t\tne := l.NewElement().Message()")
		g.p("\t\tvhAssert(\"newelement.detached\", ne.IsValid() && l.Len() == old)")
		g.p("\t\tam := l.AppendMutable().Message().Interface().(*%s)", f.MsgName)
		g.p("\t\tvhAssert(\"appendmutable.attached\", len(x.%s) == old+1 && x.%s[old] == am)", f.GoName, f.GoName)
		g.p("\t\texp.%s = append(exp.%s, &%s{})", f.GoName, f.GoName, f.MsgName)
	} else {
		g.p("\tcase 7: // Range")
		g.p("\t\tcnt := 0")
		g.p("\t\tm.Range(func(d protoreflect.FieldDescriptor, v protoreflect.Value) bool {")
		g.p("\t\t\tif d == fd {")
		g.p("\t\t\t\tcnt++")
		g.p("\t\t\t\tvhAssert(\"range.len\", v.List().Len() == old)")
		g.p("\t\t\t}")
		g.p("\t\t\treturn true")
		g.p("\t\t})")
		g.p("\t\tif old > 0 {")
		g.p("\t\t\tvhAssert(\"range.once\", cnt == 1)")
		g.p("\t\t} else {")
		g.p("\t\t\tvhAssert(\"range.absent\", cnt == 0)")
		g.p("\t\t}")
	}
	g.p("\t}")
	g.p("\tvhAssertEq_%s(\"state\", exp, x)", n)
	g.p("}")
	g.p("")
	for k, on := range []string{"read","append","setelem","truncate","clear","setlist","newfield","extra"} {
		if on == "" {
			continue
		}
		g.p("func VH_C08_%s_%s_%s() { vhC08_%s_%s(%d) }", n, f.GoName, on, n, f.GoName, k)
	}
	g.p("")
}
// reflListSeq: three consecutive operations through ONE retained Mutable view
func (g *gen) reflListSeq(m *Message, f *Field) {
	n := m.GoName
	isMsg := f.Kind == "message"
	g.p("// a list view obtained once through Mutable stays attached across reallocation, truncation and overwrite")
	g.p("func VH_C08_%s_%s_viewseq() {", n, f.GoName)
	g.reflPre(m, f, 0)
	g.p("\tl := m.Mutable(fd).List()")
	g.p("\tif exp.%s == nil {", f.GoName)
	g.p("\t\texp.%s = %s{}", f.GoName, f.GoType)
	g.p("\t}")
	g.p("\tfor step := 0; step < 3; step++ {")
	g.p("\t\tcur := len(exp.%s)", f.GoName)
	g.p("\t\tswitch vhChoice(vhIdx(\"op\", step), 3) {")
	g.p("\t\tcase 0:")
	if isMsg {
		g.p("\t\t\tv := &%s{}", f.MsgName)
		g.p("\t\t\tif step == 0 {")
		g.p("\t\t\t\tvhFill_%s(v)", f.MsgName)
		g.p("\t\t\t}")
	} else {
		g.p("\t\t\tv := %s", g.symExpr(f, "vhIdx(\"v\", step)", 3))
	}
	g.p("\t\t\tl.Append(%s)", pvOf(f, "v"))
	if f.Kind == "bytes" {
		g.p("\t\t\texp.%s = append(exp.%s, vhCloneBytes(v))", f.GoName, f.GoName)
	} else {
		g.p("\t\t\texp.%s = append(exp.%s, v)", f.GoName, f.GoName)
	}
	g.p("\t\tcase 1:")
	g.p("\t\t\tif cur > 0 {")
	g.p("\t\t\t\tl.Truncate(cur - 1)")
	g.p("\t\t\t\texp.%s = exp.%s[:cur-1]", f.GoName, f.GoName)
	g.p("\t\t\t}")
	g.p("\t\tcase 2:")
	g.p("\t\t\tif cur > 0 {")
	if isMsg {
		g.p("\t\t\t\tv := &%s{}", f.MsgName)
	} else {
		g.p("\t\t\t\tv := %s", g.symExpr(f, "vhIdx(\"w\", step)", 3))
	}
	g.p("\t\t\t\tl.Set(0, %s)", pvOf(f, "v"))
	if f.Kind == "bytes" {
		g.p("\t\t\t\texp.%s[0] = vhCloneBytes(v)", f.GoName)
	} else {
		g.p("\t\t\t\texp.%s[0] = v", f.GoName)
	}
	g.p("\t\t\t}")
	g.p("\t\t}")
	g.p("\t\tvhAssert(\"view.len\", l.Len() == len(exp.%s))", f.GoName)
	g.p("\t}")
	g.p("\tvhAssertEq_%s(\"state\", exp, x)", n)
	g.p("}")
	g.p("")
}

// reflMapSeq: three consecutive operations through ONE retained Mutable map view
func (g *gen) reflMapSeq(m *Message, f *Field) {
	n := m.GoName
	vMsg := f.Val.Kind == "message"
	if vMsg && f.Val.MsgName == "" {
		return
	}
	g.p("// a map view obtained once through Mutable stays attached across several Set/Clear calls")
	g.p("func VH_C08_%s_%s_viewseq() {", n, f.GoName)
	g.reflPre(m, f, 0)
	g.p("\tmv := m.Mutable(fd).Map()")
	g.p("\tif exp.%s == nil {", f.GoName)
	g.p("\t\texp.%s = %s{}", f.GoName, f.MapGo)
	g.p("\t}")
	g.p("\tfor step := 0; step < 3; step++ {")
	g.p("\t\tk := %s", g.symExpr(f.Key, "vhIdx(\"k\", step)", 1))
	g.p("\t\tif vhChoice(vhIdx(\"op\", step), 2) == 0 {")
	if vMsg {
		g.p("\t\t\tv := &%s{}", f.Val.MsgName)
	} else {
		g.p("\t\t\tv := %s", g.symExpr(f.Val, "vhIdx(\"v\", step)", 3))
	}
	g.p("\t\t\tmv.Set(%s, %s)", mapKeyPV(f.Key, "k"), pvOf(f.Val, "v"))
	if f.Val.Kind == "bytes" {
		g.p("\t\t\texp.%s[k] = vhCloneBytes(v)", f.GoName)
	} else {
		g.p("\t\t\texp.%s[k] = v", f.GoName)
	}
	g.p("\t\t} else {")
	g.p("\t\t\tmv.Clear(%s)", mapKeyPV(f.Key, "k"))
	g.p("\t\t\tdelete(exp.%s, k)", f.GoName)
	g.p("\t\t}")
	g.p("\t\tvhAssert(\"view.len\", mv.Len() == len(exp.%s))", f.GoName)
	g.p("\t}")
	g.p("\tvhAssertEq_%s(\"state\", exp, x)", n)
	g.p("}")
	g.p("")
}

func mapKeyPV(k *Field, v string) string {
	return pvOf(k, v) + ".MapKey()"
}

func (g *gen) reflMap(m *Message, f *Field) {
	n := m.GoName
	vMsg := f.Val.Kind == "message"
	if vMsg && f.Val.MsgName == "" {
		return
	}
	g.p("func vhC08_%s_%s(op int) {", n, f.GoName)
	g.reflPre(m, f, 0)
	g.p("\told := len(x.%s)", f.GoName)
	valSym := func(name string) string {
		if vMsg {
			return "func() *" + f.Val.MsgName + " { t := &" + f.Val.MsgName + "{}; vhFill_" + f.Val.MsgName + "(t); return t }()"
		}
		return g.symExpr(f.Val, name, 4)
	}
	g.p("\tk := %s", g.symExpr(f.Key, "\"k\"", g.keyLen))
	g.p("\t_, had := x.%s[k]", f.GoName)
	g.p("\tswitch op {")
	g.p("\tcase 0: // Has / Get view")
	g.p("\t\tvhAssert(\"has\", m.Has(fd) == (old > 0))")
	g.p("\t\tmv := m.Get(fd).Map()")
	g.p("\t\tvhAssert(\"get.len\", mv.Len() == old)")
	g.p("\t\tvhAssert(\"get.valid\", mv.IsValid() == (old > 0))")
	g.p("\t\tvhAssert(\"get.has\", mv.Has(%s) == had)", mapKeyPV(f.Key, "k"))
	g.p("\t\tgv := mv.Get(%s)", mapKeyPV(f.Key, "k"))
	g.p("\t\tvhAssert(\"get.validvalue\", gv.IsValid() == had)")
	g.p("\t\tif had {")
	if vMsg {
		g.p("\t\t\tvhAssert(\"get.value\", gv.Message().Interface().(*%s) == x.%s[k])", f.Val.MsgName, f.GoName)
	} else {
		g.assertSame(f.Val, "\"get.value\"", pvGet(f.Val, "gv"), "x."+f.GoName+"[k]", "\t\t\t")
	}
	g.p("\t\t}")
	g.p("\t\tif old == 0 {")
	g.p("\t\t\tv := %s", valSym("\"rv\""))
	g.p("\t\t\tvhAssert(\"readonly.set.panics\", vhCatch(func() { mv.Set(%s, %s) }))", mapKeyPV(f.Key, "k"), pvOf(f.Val, "v"))
	g.p("\t\t}")
	g.p("\tcase 1: // Mutable view writes through: Set")
	g.p("\t\tmv := m.Mutable(fd).Map()")
	g.p("\t\tvhAssert(\"mutable.valid\", mv.IsValid())")
	g.p("\t\tv := %s", valSym("\"v\""))
	g.p("\t\tmv.Set(%s, %s)", mapKeyPV(f.Key, "k"), pvOf(f.Val, "v"))
	g.p("\t\tif exp.%s == nil {", f.GoName)
	g.p("\t\t\texp.%s = %s{}", f.GoName, f.MapGo)
	g.p("\t\t}")
	if f.Val.Kind == "bytes" {
		g.p("\t\texp.%s[k] = vhCloneBytes(v)", f.GoName)
	} else {
		g.p("\t\texp.%s[k] = v", f.GoName)
	}
	g.p("\tcase 2: // Clear(key) through a Mutable view")
	g.p("\t\tmv := m.Mutable(fd).Map()")
	g.p("\t\tmv.Clear(%s)", mapKeyPV(f.Key, "k"))
	g.p("\t\tif exp.%s == nil {", f.GoName)
	g.p("\t\t\texp.%s = %s{}", f.GoName, f.MapGo)
	g.p("\t\t}")
	g.p("\t\tdelete(exp.%s, k)", f.GoName)
	g.p("\t\tvhAssert(\"clearkey.has\", !mv.Has(%s))", mapKeyPV(f.Key, "k"))
	g.p("\tcase 3: // Clear(fd)")
	g.p("\t\tm.Clear(fd)")
	g.p("\t\texp.%s = nil", f.GoName)
	g.p("\t\tvhAssert(\"clear.has\", !m.Has(fd))")
	g.p("\tcase 4: // Range over the map view visits every entry once")
	g.p("\t\tmv := m.Get(fd).Map()")
	g.p("\t\tcnt := 0")
	g.p("\t\thit := 0")
	g.p("\t\tmv.Range(func(mk protoreflect.MapKey, v protoreflect.Value) bool {")
	g.p("\t\t\tcnt++")
	g.p("\t\t\tif %s == k {", pvGet(f.Key, "mk"))
	g.p("\t\t\t\thit++")
	g.p("\t\t\t}")
	g.p("\t\t\treturn true")
	g.p("\t\t})")
	g.p("\t\tvhAssert(\"range.count\", cnt == old)")
	g.p("\t\tif had {")
	g.p("\t\t\tvhAssert(\"range.hit\", hit == 1)")
	g.p("\t\t} else {")
	g.p("\t\t\tvhAssert(\"range.nohit\", hit == 0)")
	g.p("\t\t}")
	g.p("\tcase 5: // NewField: empty, valid, detached")
	g.p("\t\tnm := m.NewField(fd).Map()")
	g.p("\t\tvhAssert(\"newfield.empty\", nm.Len() == 0 && nm.IsValid())")
	g.p("\t\tv := %s", valSym("\"v\""))
	g.p("\t\tnm.Set(%s, %s)", mapKeyPV(f.Key, "k"), pvOf(f.Val, "v"))
	g.p("\t\tvhAssert(\"newfield.detached\", len(x.%s) == old)", f.GoName)
	if vMsg {
		g.p("\tcase 6: // Mutable(key): existing entry is returned as is, missing entry is created and attached")
		g.p("\t\tmv := m.Mutable(fd).Map()")
		g.p("\t\tprev := x.%s[k]", f.GoName)
		g.p("\t\tgot := mv.Mutable(%s).Message().Interface().(*%s)", mapKeyPV(f.Key, "k"), f.Val.MsgName)
		g.p("\t\tif had {")
		g.p("\t\t\tvhAssert(\"mutablekey.existing\", got == prev)")
		g.p("\t\t} else {")
		g.p("\t\t\tif exp.%s == nil {", f.GoName)
		g.p("\t\t\t\texp.%s = %s{}", f.GoName, f.MapGo)
		g.p("\t\t\t}")
		g.p("\t\t\texp.%s[k] = &%s{}", f.GoName, f.Val.MsgName)
		g.p("\t\t}")
		g.p("\t\tvhAssert(\"mutablekey.attached\", x.%s[k] == got)", f.GoName)
	} else {
		g.p("\tcase 6: // Mutable(key) is only for message values")
		g.p("\t\tmv := m.Mutable(fd).Map()")
		g.p("\t\tvhAssert(\"mutablekey.panics\", vhCatch(func() { mv.Mutable(%s) }))", mapKeyPV(f.Key, "k"))
		g.p("\t\tif exp.%s == nil {", f.GoName)
		g.p("\t\t\texp.%s = %s{}", f.GoName, f.MapGo)
		g.p("\t\t}")
	}
	g.p("\t}")
	g.p("\tvhAssertEq_%s(\"state\", exp, x)", n)
	g.p("}")
	g.p("")
	for k, on := range []string{"read","setkey","clearkey","clear","rangemap","newfield","mutablekey"} {
		if on == "" {
			continue
		}
		g.p("func VH_C08_%s_%s_%s() { vhC08_%s_%s(%d) }", n, f.GoName, on, n, f.GoName, k)
	}
	g.p("")
}
func (g *gen) reflWhole(m *Message) {
	n := m.GoName
	g.p("func vhFieldIndex_%s(d protoreflect.FieldDescriptor) int {", n)
	g.p("\tswitch d {")
	for i, f := range m.All {
		g.p("\tcase %s:", fdVar(m, f))
		g.p("\t\treturn %d", i)
	}
	g.p("\t}")
	g.p("\treturn -1")
	g.p("}")
	g.p("")
	g.p("func VH_C08_%s__rangeall() {", n)
	g.p("\tx := &%s{}", n)
	g.p("\tif vhChoice(\"filled\", 2) == 1 {")
	g.p("\t\tvhFill_%s(x)", n)
	g.p("\t}")
	g.p("\texp := vhClone_%s(x)", n)
	g.p("\tvar cnt [%d]int", len(m.All)+1)
	g.p("\tx.ProtoReflect().Range(func(d protoreflect.FieldDescriptor, v protoreflect.Value) bool {")
	g.p("\t\ti := vhFieldIndex_%s(d)", n)
	g.p("\t\tvhAssert(\"range.known\", i >= 0)")
	g.p("\t\tif i >= 0 {")
	g.p("\t\t\tcnt[i]++")
	g.p("\t\t}")
	g.p("\t\tvhAssert(\"range.valid\", v.IsValid())")
	g.p("\t\treturn true")
	g.p("\t})")
	for i, f := range m.All {
		var cond string
		switch f.Card {
		case "singular":
			cond = presentCond(f, "exp."+f.GoName)
		case "repeated", "map":
			cond = "len(exp." + f.GoName + ") > 0"
		case "oneof":
			cond = fmt.Sprintf("func() bool { _, ok := exp.%s.(*%s); return ok }()", f.Oneof.GoName, f.Wrapper)
		}
		g.p("\tif %s {", cond)
		g.p("\t\tvhAssert(\"range.once.%s\", cnt[%d] == 1)", f.GoName, i)
		g.p("\t} else {")
		g.p("\t\tvhAssert(\"range.absent.%s\", cnt[%d] == 0)", f.GoName, i)
		g.p("\t}")
	}
	g.p("\tvhAssertEq_%s(\"state\", exp, x)", n)
	g.p("}")
	g.p("")
	g.p("// Range stops as soon as the callback returns false: no further call, whatever field it stopped at")
	g.p("func VH_C08_%s__rangestop() {", n)
	g.p("\tx := &%s{}", n)
	g.p("\tvhFill_%s(x)", n)
	g.p("\tstopAt := vhChoice(\"stopAt\", %d)", len(m.All)+1)
	g.p("\tcalls := 0")
	g.p("\tx.ProtoReflect().Range(func(d protoreflect.FieldDescriptor, v protoreflect.Value) bool {")
	g.p("\t\tcalls++")
	g.p("\t\treturn calls <= stopAt")
	g.p("\t})")
	g.p("\tvhAssert(\"range.stops\", calls <= stopAt+1)")
	g.p("}")
	g.p("")
	g.p("// unknown fields through reflection")
	g.p("func VH_C08_%s__unknown() {", n)
	g.p("\tx := &%s{}", n)
	g.p("\tx.unknownFields = vhBytes(\"u\", 8)")
	g.p("\tm := x.ProtoReflect()")
	g.p("\tvhAssertBytesEq(\"getunknown\", []byte(m.GetUnknown()), x.unknownFields)")
	g.p("\tr := vhBytes(\"r\", 8)")
	g.p("\tm.SetUnknown(protoreflect.RawFields(r))")
	g.p("\tvhAssertBytesEq(\"setunknown\", x.unknownFields, r)")
	g.p("}")
	g.p("")
}

func (g *gen) ReflectSource(msgs []*Message, fieldFilter func(m *Message, f *Field) bool) string {
	g.lightAny = true
	g.pick = 1
	g.mapN, g.listN = 2, 2
	g.strLen = 4
	g.propTag = "C08"
	g.header()
	g.driversOnce()
	g.decodeCommon()
	for _, m := range g.s.Msgs {
		for _, f := range m.All {
			g.buildField(m, f)
		}
		g.anyMessage(m)
		g.fillMessage(m)
		g.eqMessage(m)
		g.cloneMessage(m)
	}
	for _, m := range msgs {
		for _, f := range m.All {
			if fieldFilter != nil && !fieldFilter(m, f) {
				continue
			}
			switch {
			case f.Card == "map":
				g.reflMap(m, f)
				g.reflMapSeq(m, f)
			case f.Card == "repeated":
				if f.Kind == "message" && f.MsgName == "" {
					continue
				}
				g.reflList(m, f)
				g.reflListSeq(m, f)
			case f.Kind == "message":
				if f.MsgName == "" {
					continue
				}
				g.reflMessage(m, f)
			default:
				g.reflScalar(m, f)
			}
		}
		g.reflWhole(m)
	}
	return g.sb.String()
}

var _ = strings.Join

// ---------- C09: nil and read-only empty values ----------

func (g *gen) nilHarnesses(m *Message) {
	n := m.GoName
	for _, f := range m.All {
		if f.Kind == "message" && f.MsgName == "" {
			continue
		}
		fd := fdVar(m, f)
		g.p("// reads on a nil *%s behave as on an empty message; stores panic", n)
		g.p("func VH_C09_%s_nil_%s() {", n, f.GoName)
		g.p("\tvar x *%s", n)
		g.p("\tvar m protoreflect.Message")
		g.p("\tif vhChoice(\"recv\", 2) == 0 {")
		g.p("\t\tm = x.ProtoReflect()")
		g.p("\t} else {")
		g.p("\t\tm = (&%s{}).ProtoReflect().Type().Zero()", n)
		g.p("\t}")
		g.p("\tfd := %s", fd)
		g.p("\tswitch vhChoice(\"op\", 4) {")
		g.p("\tcase 0:")
		g.p("\t\tvhAssert(\"has\", !m.Has(fd))")
		g.p("\tcase 1:")
		g.p("\t\tv := m.Get(fd)")
		switch {
		case f.Card == "map":
			g.p("\t\tvhAssert(\"get.emptymap\", v.Map().Len() == 0 && !v.Map().IsValid())")
		case f.Card == "repeated":
			g.p("\t\tvhAssert(\"get.emptylist\", v.List().Len() == 0 && !v.List().IsValid())")
		case f.Kind == "message":
			g.p("\t\tvhAssert(\"get.invalidmsg\", !v.Message().IsValid())")
		default:
			g.p("\t\tvar zero %s", scalarGo(f))
			g.assertSame(f, "\"get.default\"", pvGet(f, "v"), "zero", "\t\t")
		}
		g.p("\tcase 2:")
		g.p("\t\tcnt := 0")
		g.p("\t\tm.Range(func(protoreflect.FieldDescriptor, protoreflect.Value) bool { cnt++; return true })")
		g.p("\t\tvhAssert(\"range.nothing\", cnt == 0)")
		g.p("\tcase 3:")
		if f.Card == "oneof" {
			g.p("\t\tvhAssert(\"whichoneof.nil\", m.WhichOneof(fd.ContainingOneof()) == nil)")
		} else {
			g.p("\t\tvhAssert(\"isvalid\", !m.IsValid())")
		}
		g.p("\t}")
		g.p("}")
		g.p("")
		// mutators must panic
		g.p("func VH_C09_%s_nilstore_%s() {", n, f.GoName)
		g.p("\tvar x *%s", n)
		g.p("\tm := x.ProtoReflect()")
		g.p("\tfd := %s", fd)
		switch {
		case f.Card == "map" || f.Card == "repeated" || f.Kind == "message":
			g.p("\tvhAssert(\"mutable.panics\", vhCatch(func() { m.Mutable(fd) }))")
		default:
			g.p("\tvar v %s", scalarGo(f))
			g.p("\tvhAssert(\"set.panics\", vhCatch(func() { m.Set(fd, %s) }))", pvOf(f, "v"))
		}
		g.p("}")
		g.p("")
	}
	// codec on nil / typed-nil values
	g.p("func VH_C09_%s_nilcodec() {", n)
	g.p("\tvar x *%s", n)
	g.p("\tm := x.ProtoReflect()")
	g.p("\tmethods := m.ProtoMethods()")
	g.p("\tsz := methods.Size(protoiface.SizeInput{Message: m}).Size")
	g.p("\tvhAssert(\"size.zero\", sz == 0)")
	g.p("\tout, err := methods.Marshal(protoiface.MarshalInput{Message: m})")
	g.p("\tvhAssert(\"marshal.empty\", err == nil && len(out.Buf) == 0)")
	g.p("\t// appending the (empty) encoding of a nil message keeps the caller's bytes")
	g.p("\tpre := vhBytes(\"pre\", 3)")
	g.p("\tout2, err2 := methods.Marshal(protoiface.MarshalInput{Message: m, Buf: pre})")
	g.p("\tvhAssert(\"marshal.append.err\", err2 == nil)")
	g.p("\tvhAssertBytesEq(\"marshal.append.prefix\", out2.Buf, pre)")
	g.p("\t// getters on a nil receiver")
	for _, f := range m.All {
		if f.Kind == "message" && f.MsgName == "" {
			continue
		}
		switch {
		case f.Card == "map" || f.Card == "repeated":
			g.p("\tvhAssert(\"getter.%s\", len(x.%s()) == 0)", f.GoName, getterName(m, f))
		case f.Kind == "message":
			g.p("\tvhAssert(\"getter.%s\", x.%s() == nil)", f.GoName, getterName(m, f))
		case f.Kind == "bytes" || f.Kind == "string":
			g.p("\tvhAssert(\"getter.%s\", len(x.%s()) == 0)", f.GoName, getterName(m, f))
		case f.Kind == "bool":
			g.p("\tvhAssert(\"getter.%s\", !x.%s())", f.GoName, getterName(m, f))
		default:
			g.p("\tvhAssert(\"getter.%s\", x.%s() == 0)", f.GoName, getterName(m, f))
		}
	}
	g.p("}")
	g.p("")
	// chains through unpopulated message fields and nil elements
	for _, f := range m.All {
		if f.Kind != "message" || f.MsgName == "" {
			continue
		}
		tm := g.s.ByName[f.MsgName]
		if len(tm.All) == 0 {
			continue
		}
		tf := tm.All[0]
		switch f.Card {
		case "singular", "oneof":
			g.p("// Get(unpopulated %s).Message() is an empty read-only message: reads work, stores panic", f.GoName)
			g.p("func VH_C09_%s_chain_%s() {", n, f.GoName)
			g.p("\tx := &%s{}", n)
			if f.Card == "oneof" {
				g.p("\t// the oneof may also hold a different member")
				g.p("\tswitch vhChoice(\"pre.sel\", %d) {", len(f.Oneof.Members))
				k := 1
				for _, sib := range f.Oneof.Members {
					if sib == f {
						continue
					}
					g.p("\tcase %d:", k)
					g.p("\t\tvhBuild_%s_%s(x, \"presib\", 0)", n, sib.GoName)
					k++
				}
				g.p("\t}")
			}
			g.p("\tinner := x.ProtoReflect().Get(%s).Message()", fdVar(m, f))
			g.p("\tvhAssert(\"inner.invalid\", !inner.IsValid())")
			g.p("\tswitch vhChoice(\"op\", 4) {")
			g.p("\tcase 3:")
			g.p("\t\t// storing into the read-only empty message must panic, not be dropped")
			if tf.Kind != "message" && tf.Card != "repeated" && tf.Card != "map" {
				g.p("\t\tvar zv %s", scalarGo(tf))
				g.p("\t\tvhAssert(\"inner.set.panics\", vhCatch(func() { inner.Set(%s, %s) }))", fdVar(tm, tf), pvOf(tf, "zv"))
			} else {
				g.p("\t\tvhAssert(\"inner.mutable.panics\", vhCatch(func() { inner.Mutable(%s) }))", fdVar(tm, tf))
			}
			g.p("\tcase 0:")
			g.p("\t\tvhAssert(\"inner.has\", !inner.Has(%s))", fdVar(tm, tf))
			g.p("\tcase 1:")
			g.p("\t\tcnt := 0")
			g.p("\t\tinner.Range(func(protoreflect.FieldDescriptor, protoreflect.Value) bool { cnt++; return true })")
			g.p("\t\tvhAssert(\"inner.range\", cnt == 0)")
			g.p("\tcase 2:")
			g.p("\t\t_ = inner.Get(%s)", fdVar(tm, tf))
			g.p("\t\tvhAssert(\"inner.get\", true)")
			g.p("\t}")
			g.p("}")
			g.p("")
		case "repeated":
			g.p("// a nil element in a repeated message field: codec and reads must not panic")
			g.p("func VH_C09_%s_nilelem_%s() {", n, f.GoName)
			g.p("\tx := &%s{%s: %s{nil}}", n, f.GoName, f.GoType)
			g.p("\tm := x.ProtoReflect()")
			g.p("\tmethods := m.ProtoMethods()")
			g.p("\tsz := methods.Size(protoiface.SizeInput{Message: m}).Size")
			g.p("\tout, err := methods.Marshal(protoiface.MarshalInput{Message: m})")
			g.p("\tvhAssert(\"codec\", err == nil && len(out.Buf) == sz)")
			g.p("\tel := m.Get(%s).List().Get(0).Message()", fdVar(m, f))
			g.p("\tvhAssert(\"elem.invalid\", !el.IsValid())")
			g.p("}")
			g.p("")
		case "map":
		}
	}
	for _, f := range m.All {
		if f.Card != "map" || f.Val.Kind != "message" || f.Val.MsgName == "" {
			continue
		}
		g.p("// a nil message value in a map: codec and reads must not panic")
		g.p("func VH_C09_%s_nilval_%s() {", n, f.GoName)
		g.p("\tvar zk %s", f.Key.GoType)
		g.p("\tx := &%s{%s: %s{zk: nil}}", n, f.GoName, f.MapGo)
		g.p("\tm := x.ProtoReflect()")
		g.p("\tmethods := m.ProtoMethods()")
		g.p("\tsz := methods.Size(protoiface.SizeInput{Message: m}).Size")
		g.p("\tout, err := methods.Marshal(protoiface.MarshalInput{Message: m})")
		g.p("\tvhAssert(\"codec\", err == nil && len(out.Buf) == sz)")
		g.p("\tcnt := 0")
		g.p("\tm.Get(%s).Map().Range(func(k protoreflect.MapKey, v protoreflect.Value) bool {", fdVar(m, f))
		g.p("\t\tcnt++")
		g.p("\t\tvhAssert(\"val.invalid\", !v.Message().IsValid())")
		g.p("\t\treturn true")
		g.p("\t})")
		g.p("\tvhAssert(\"range.one\", cnt == 1)")
		g.p("}")
		g.p("")
	}
}

// ---------- C11: read-only operations write nothing ----------

func (g *gen) readonlyHarness(m *Message, f *Field) {
	n := m.GoName
	if f.Kind == "message" && f.MsgName == "" {
		return
	}
	g.p("// every read-only operation leaves all pre-existing memory untouched (=> no data race between readers)")
	g.p("func VH_C11_%s_%s() {", n, f.GoName)
	g.reflPre(m, f, 1)
	g.p("\t_ = exp")
	g.p("\tvhWatch(x)")
	g.p("\tvhEpoch()")
	g.p("\tvhTrack(true)")
	g.p("\tvhMapOrderAll(false)")
	g.p("\t_ = m.Has(fd)")
	g.p("\tv := m.Get(fd)")
	g.p("\t_ = v")
	switch {
	case f.Card == "map":
		g.p("\tmv := v.Map()")
		g.p("\t_ = mv.Len()")
		g.p("\t_ = mv.IsValid()")
		g.p("\tmv.Range(func(k protoreflect.MapKey, e protoreflect.Value) bool { _ = mv.Has(k); _ = mv.Get(k); return true })")
	case f.Card == "repeated":
		g.p("\tlv := v.List()")
		g.p("\t_ = lv.IsValid()")
		g.p("\tfor i := 0; i < lv.Len(); i++ {")
		g.p("\t\t_ = lv.Get(i)")
		g.p("\t}")
	case f.Kind == "message":
		g.p("\t_ = v.Message().IsValid()")
	}
	g.p("\t_ = x.%s()", getterName(m, f))
	g.p("\tm.Range(func(d protoreflect.FieldDescriptor, e protoreflect.Value) bool { return true })")
	if f.Card == "oneof" {
		g.p("\t_ = m.WhichOneof(fd.ContainingOneof())")
	}
	g.p("\t_ = m.IsValid()")
	g.p("\t_ = m.Descriptor()")
	g.p("\t_ = m.Type()")
	g.p("\t_ = m.GetUnknown()")
	g.p("\t_ = m.Interface()")
	g.p("\tmethods := m.ProtoMethods()")
	g.p("\tflags := vhFlags(\"det\")")
	g.p("\t_ = methods.Size(protoiface.SizeInput{Message: m, Flags: flags})")
	g.p("\t_, _ = methods.Marshal(protoiface.MarshalInput{Message: m, Flags: flags})")
	g.p("\tvhTrack(false)")
	g.p("\tvhAssert(\"no.writes\", vhWrites() == 0)")
	g.p("\tvhAssertEq_%s(\"state\", exp, x)", n)
	g.p("}")
	g.p("")
}

// ---------- C19: Go API coherent with reflection ----------

func (g *gen) apiHarnesses(m *Message) {
	n := m.GoName
	g.p("func VH_C19_%s_types() {", n)
	g.p("\tx := &%s{}", n)
	g.p("\tm := x.ProtoReflect()")
	g.p("\t_, ok1 := m.Interface().(*%s)", n)
	g.p("\tvhAssert(\"interface.type\", ok1 && m.Interface().(*%s) == x)", n)
	g.p("\tnm := m.New()")
	g.p("\t_, ok2 := nm.Interface().(*%s)", n)
	g.p("\tvhAssert(\"new.type\", ok2 && nm.IsValid())")
	g.p("\ttn := m.Type().New()")
	g.p("\t_, ok3 := tn.Interface().(*%s)", n)
	g.p("\tvhAssert(\"type.new.type\", ok3 && tn.IsValid())")
	g.p("\tz := m.Type().Zero()")
	g.p("\tzp, ok4 := z.Interface().(*%s)", n)
	g.p("\tvhAssert(\"type.zero.type\", ok4 && zp == nil && !z.IsValid())")
	g.p("\tvhAssert(\"descriptor.same\", m.Descriptor() == md_%s && m.Type().Descriptor() == md_%s)", n, n)
	g.p("\tvhAssert(\"descriptor.nil\", (*%s)(nil).ProtoReflect().Descriptor() == md_%s)", n, n)
	g.p("}")
	g.p("")
	g.p("// getters on a nil receiver return the default, as reflection Get on an empty message does")
	g.p("func VH_C19_%s_nilgetters() {", n)
	g.p("\tvar x *%s", n)
	g.p("\tvhAssert(\"nil.reflect\", !x.ProtoReflect().IsValid())")
	for _, f := range m.All {
		if f.Kind == "message" && f.MsgName == "" {
			continue
		}
		switch {
		case f.Card == "map" || f.Card == "repeated":
			g.p("\tvhAssert(\"getter.%s\", len(x.%s()) == 0)", f.GoName, getterName(m, f))
		case f.Kind == "message":
			g.p("\tvhAssert(\"getter.%s\", x.%s() == nil)", f.GoName, getterName(m, f))
		case f.Kind == "bytes" || f.Kind == "string":
			g.p("\tvhAssert(\"getter.%s\", len(x.%s()) == 0)", f.GoName, getterName(m, f))
		case f.Kind == "bool":
			g.p("\tvhAssert(\"getter.%s\", !x.%s())", f.GoName, getterName(m, f))
		default:
			g.p("\tvhAssert(\"getter.%s\", x.%s() == 0)", f.GoName, getterName(m, f))
		}
	}
	for _, o := range m.Oneofs {
		g.p("\tvhAssert(\"getter.%s\", x.Get%s() == nil)", o.GoName, o.GoName)
	}
	g.p("}")
	g.p("")
	g.p("// Reset empties the message")
	g.p("func VH_C19_%s_reset() {", n)
	g.p("\tx := &%s{}", n)
	g.p("\tvhFill_%s(x)", n)
	g.p("\tx.unknownFields = []byte{0x08, 0x01}")
	g.p("\tx.Reset()")
	g.p("\tvhAssertEq_%s(\"reset\", &%s{}, x)", n, n)
	g.p("\tvhAssert(\"reset.unknown\", x.unknownFields == nil)")
	g.p("}")
	g.p("")
}

func (g *gen) apiField(m *Message, f *Field) {
	n := m.GoName
	if f.Kind == "message" && f.MsgName == "" {
		return
	}
	g.p("// the generated getter agrees with reflection Get on every state of the field")
	g.p("func VH_C19_%s_getter_%s() {", n, f.GoName)
	g.p("\tx := &%s{}", n)
	if f.Card == "oneof" {
		g.p("\tswitch vhChoice(\"pre.sel\", %d) {", len(f.Oneof.Members)+1)
		g.p("\tcase 0:")
		g.p("\t\tvhBuild_%s_%s(x, \"pre\", 1)", n, f.GoName)
		k := 1
		for _, sib := range f.Oneof.Members {
			if sib == f {
				continue
			}
			g.p("\tcase %d:", k)
			g.p("\t\tvhBuild_%s_%s(x, \"presib\", 0)", n, sib.GoName)
			k++
		}
		g.p("\t}")
	} else {
		g.p("\tvhBuild_%s_%s(x, \"pre\", 1)", n, f.GoName)
	}
	g.p("\tv := x.ProtoReflect().Get(%s)", fdVar(m, f))
	get := "x." + getterName(m, f) + "()"
	switch {
	case f.Card == "map":
		g.p("\tvhAssert(\"len\", v.Map().Len() == len(%s))", get)
	case f.Card == "repeated":
		g.p("\tgl := %s", get)
		g.p("\tvhAssert(\"len\", v.List().Len() == len(gl))")
		g.p("\tfor i := range gl {")
		if f.Kind == "message" {
			g.p("\t\tel := v.List().Get(i).Message()")
			g.p("\t\tif gl[i] != nil {")
			g.p("\t\t\tvhAssert(\"elem\", el.Interface().(*%s) == gl[i])", f.MsgName)
			g.p("\t\t}")
		} else {
			g.assertSame(f, "\"elem\"", pvGet(f, "v.List().Get(i)"), "gl[i]", "\t\t")
		}
		g.p("\t}")
	case f.Kind == "message":
		g.p("\tgm := %s", get)
		g.p("\tif gm != nil {")
		g.p("\t\tvhAssert(\"same\", v.Message().Interface().(*%s) == gm)", f.MsgName)
		g.p("\t} else {")
		g.p("\t\tvhAssert(\"invalid\", !v.Message().IsValid())")
		g.p("\t}")
	default:
		g.assertSame(f, "\"same\"", pvGet(f, "v"), get, "\t")
	}
	g.p("}")
	g.p("")
}

func (g *gen) ReflectAuxSource(prop string, msgs []*Message, fieldFilter func(m *Message, f *Field) bool) string {
	g.propTag = prop
	g.lightAny = true
	g.pick = 1
	g.mapN, g.listN = 2, 2
	g.strLen = 4
	g.header()
	g.driversOnce()
	g.decodeCommon()
	for _, m := range g.s.Msgs {
		for _, f := range m.All {
			g.buildField(m, f)
		}
		g.anyMessage(m)
		g.fillMessage(m)
		g.eqMessage(m)
		g.cloneMessage(m)
	}
	for _, m := range msgs {
		switch prop {
		case "C09":
			g.nilHarnesses(m)
		case "C19":
			g.apiHarnesses(m)
		}
		for _, f := range m.All {
			if fieldFilter != nil && !fieldFilter(m, f) {
				continue
			}
			switch prop {
			case "C11":
				g.readonlyHarness(m, f)
			case "C19":
				g.apiField(m, f)
			}
		}
	}
	if prop == "C19" {
		for _, en := range g.s.Enums {
			g.p("func VH_C19_enum_%s() {", en)
			g.p("\tv := vhI32(\"v\")")
			g.p("\tvhAssert(\"number\", %s(v).Number() == protoreflect.EnumNumber(v))", en)
			g.p("\tvhAssert(\"enum.ptr\", *%s(v).Enum() == %s(v))", en, en)
			g.p("}")
			g.p("")
		}
	}
	return g.sb.String()
}
