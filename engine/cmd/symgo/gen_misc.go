package main

import "fmt"

// ---------- C07: aliasing / disturbance ----------

func (g *gen) noAliasMessage(m *Message) {
	n := m.GoName
	g.p("// vhNoAlias_%s asserts that no byte slice reachable from x shares its backing array with buf.", n)
	g.p("func vhNoAlias_%s(id string, x *%s, buf []byte) {", n, n)
	g.p("\tif x == nil {")
	g.p("\t\treturn")
	g.p("\t}")
	chk := func(f *Field, v, ind string) {
		switch f.Kind {
		case "bytes":
			g.p("%svhAssert(id+\".%s\", !vhAlias(%s, buf))", ind, f.GoName, v)
		case "message":
			if f.MsgName != "" {
				g.p("%svhNoAlias_%s(id+\".%s\", %s, buf)", ind, f.MsgName, f.GoName, v)
			}
		}
	}
	for _, f := range m.Fields {
		if f.Kind != "bytes" && f.Kind != "message" {
			continue
		}
		switch f.Card {
		case "singular":
			chk(f, "x."+f.GoName, "\t")
		case "repeated":
			g.p("\tfor _, e := range x.%s {", f.GoName)
			chk(f, "e", "\t\t")
			g.p("\t\t_ = e")
			g.p("\t}")
		case "map":
			if f.Val.Kind != "bytes" && f.Val.Kind != "message" {
				continue
			}
			g.p("\tfor _, e := range x.%s {", f.GoName)
			vf := *f.Val
			vf.GoName = f.GoName
			chk(&vf, "e", "\t\t")
			g.p("\t\t_ = e")
			g.p("\t}")
		}
	}
	for _, o := range m.Oneofs {
		g.p("\tswitch o := x.%s.(type) {", o.GoName)
		for _, f := range o.Members {
			g.p("\tcase *%s:", f.Wrapper)
			g.p("\t\t_ = o")
			chk(f, "o."+f.WField, "\t\t")
		}
		g.p("\t}")
	}
	g.p("\tvhAssert(id+\".unknown\", !vhAlias(x.unknownFields, buf))")
	g.p("}")
	g.p("")
}

func (g *gen) aliasHarness(m *Message, f *Field) {
	n := m.GoName
	g.p("// decoding neither modifies nor retains the input buffer")
	depth := 1
	if f.Card == "map" {
		depth = 0 // values of message-valued maps: empty or fixed (their own types have their own harnesses)
	}
	g.p("func VH_C07_%s_%s_dec() {", n, f.GoName)
	g.p("\tsrc := &%s{}", n)
	g.p("\tvhBuild_%s_%s(src, \"a\", %d)", n, f.GoName, depth)
	g.p("\tbuf := vhSpec_%s([]byte{}, src)", n)
	g.p("\tsnap := vhSnapshot(buf)")
	g.p("\tx := &%s{}", n)
	g.p("\tif vhChoice(\"merge\", 2) == 1 {")
	g.p("\t\t// decode a second time into the populated message (Merge semantics / duplicate records)")
	g.p("\t\tpre := vhSpec_%s([]byte{}, src)", n)
	g.p("\t\t_ = vhUnmarshalStep_%s(x, pre, 0)", n)
	g.p("\t}")
	g.p("\terr := vhUnmarshalStep_%s(x, buf, 0)", n)
	g.p("\tvhAssert(\"accepts\", err == nil)")
	g.p("\tvhAssert(\"input.unmodified\", vhUnchanged(buf, snap))")
	g.p("\tvhNoAlias_%s(\"noalias\", x, buf)", n)
	g.p("}")
	g.p("")
	if f.Kind == "bytes" && f.Card != "map" {
		g.p("// a single record for the field (payload possibly EMPTY, which canonical encodings never contain),")
		g.p("// decoded into a message whose field is nil or already populated")
		g.p("func VH_C07_%s_%s_rec() {", n, f.GoName)
		g.p("\tpayload := vhBytes(\"payload\", 3)")
		g.p("\tbuf := protowire.AppendTag([]byte{}, %d, protowire.BytesType)", f.Number)
		g.p("\tbuf = protowire.AppendBytes(buf, payload)")
		g.p("\tif vhChoice(\"twice\", 2) == 1 {")
		g.p("\t\tbuf = protowire.AppendTag(buf, %d, protowire.BytesType)", f.Number)
		g.p("\t\tbuf = protowire.AppendBytes(buf, vhBytes(\"payload2\", 3))")
		g.p("\t}")
		g.p("\tsnap := vhSnapshot(buf)")
		g.p("\tx := &%s{}", n)
		g.p("\terr := vhUnmarshalStep_%s(x, buf, 0)", n)
		g.p("\tvhAssert(\"accepts\", err == nil)")
		g.p("\tvhAssert(\"input.unmodified\", vhUnchanged(buf, snap))")
		g.p("\tvhNoAlias_%s(\"noalias\", x, buf)", n)
		g.p("}")
		g.p("")
	}
	g.p("// Size and Marshal write nothing that existed before the call; output shares no memory with the message")
	g.p("func VH_C07_%s_%s_enc() {", n, f.GoName)
	g.p("\tx := &%s{}", n)
	g.p("\tvhBuild_%s_%s(x, \"a\", 1)", n, f.GoName)
	g.p("\tmsg := x.ProtoReflect()")
	g.p("\tmethods := msg.ProtoMethods()")
	g.p("\tflags := vhFlags(\"det\")")
	g.p("\tvhWatch(x)")
	g.p("\tvhEpoch()")
	g.p("\tvhTrack(true)")
	g.p("\t_ = methods.Size(protoiface.SizeInput{Message: msg, Flags: flags})")
	g.p("\tout, err := methods.Marshal(protoiface.MarshalInput{Message: msg, Flags: flags})")
	g.p("\tvhTrack(false)")
	g.p("\tvhAssert(\"marshal.noerr\", err == nil)")
	g.p("\tvhAssert(\"message.undisturbed\", vhWrites() == 0)")
	g.p("\tvhNoAlias_%s(\"out.noalias\", x, out.Buf)", n)
	g.p("}")
	g.p("")
}

// ---------- C05: determinism ----------

func (g *gen) detDriver(m *Message) {
	n := m.GoName
	g.p("// vhC05_%s: deterministic bytes do not depend on map iteration order, repetition,", n)
	g.p("// insertion history or nil-versus-empty containers.")
	g.p("func vhC05_%s(x *%s) {", n, n)
	g.p("\tmsg := x.ProtoReflect()")
	g.p("\tvhMapOrderAll(true)")
	g.p("\tout1, err1 := msg.ProtoMethods().Marshal(protoiface.MarshalInput{Message: msg, Flags: protoiface.MarshalDeterministic})")
	g.p("\t// every iteration order of the first run is compared with ONE fixed order of the later runs:")
	g.p("\t// by transitivity any two orders give the same bytes")
	g.p("\tvhMapOrderAll(false)")
	g.p("\tout2, err2 := msg.ProtoMethods().Marshal(protoiface.MarshalInput{Message: msg, Flags: protoiface.MarshalDeterministic})")
	g.p("\tvhAssert(\"noerr\", err1 == nil && err2 == nil)")
	g.p("\tvhAssertBytesEq(\"repeat\", out1.Buf, out2.Buf)")
	g.p("\ty := vhCloneRev_%s(x)", n)
	g.p("\tym := y.ProtoReflect()")
	g.p("\tout3, err3 := ym.ProtoMethods().Marshal(protoiface.MarshalInput{Message: ym, Flags: protoiface.MarshalDeterministic})")
	g.p("\tvhMapOrderAll(false)")
	g.p("\tvhAssert(\"noerr3\", err3 == nil)")
	g.p("\tvhAssertBytesEq(\"history\", out1.Buf, out3.Buf)")
	g.p("}")
	g.p("")
}

// cloneRev: equal message with reversed map insertion order and nil/empty containers flipped
func (g *gen) cloneRevMessage(m *Message) {
	n := m.GoName
	g.p("func vhCloneRev_%s(x *%s) *%s {", n, n, n)
	g.p("\tif x == nil {")
	g.p("\t\treturn nil")
	g.p("\t}")
	g.p("\ty := &%s{}", n)
	cl := func(f *Field, src string) string {
		switch f.Kind {
		case "bytes":
			return fmt.Sprintf("vhFlipBytes(%s)", src)
		case "message":
			if f.MsgName != "" {
				return fmt.Sprintf("vhCloneRev_%s(%s)", f.MsgName, src)
			}
		}
		return src
	}
	for _, f := range m.Fields {
		switch f.Card {
		case "singular":
			g.p("\ty.%s = %s", f.GoName, cl(f, "x."+f.GoName))
		case "repeated":
			g.p("\tif len(x.%s) > 0 || x.%s == nil {", f.GoName, f.GoName)
			g.p("\t\ty.%s = %s{}", f.GoName, f.GoType)
			g.p("\t}")
			g.p("\tfor _, e := range x.%s {", f.GoName)
			g.p("\t\ty.%s = append(y.%s, %s)", f.GoName, f.GoName, cl(f, "e"))
			g.p("\t}")
		case "map":
			g.p("\tif len(x.%s) > 0 || x.%s == nil {", f.GoName, f.GoName)
			g.p("\t\ty.%s = %s{}", f.GoName, f.MapGo)
			g.p("\t}")
			g.p("\t{")
			g.p("\t\tvar ks []%s", f.Key.GoType)
			g.p("\t\tfor k := range x.%s {", f.GoName)
			g.p("\t\t\tks = append(ks, k)")
			g.p("\t\t}")
			g.p("\t\tfor i := len(ks) - 1; i >= 0; i-- {")
			g.p("\t\t\ty.%s[ks[i]] = %s", f.GoName, cl(f.Val, "x."+f.GoName+"[ks[i]]"))
			g.p("\t\t}")
			g.p("\t}")
		}
	}
	for _, o := range m.Oneofs {
		g.p("\tswitch o := x.%s.(type) {", o.GoName)
		for _, f := range o.Members {
			g.p("\tcase *%s:", f.Wrapper)
			g.p("\t\ty.%s = &%s{%s: %s}", o.GoName, f.Wrapper, f.WField, cl(f, "o."+f.WField))
		}
		g.p("\t}")
	}
	g.p("\ty.unknownFields = vhCloneBytes(x.unknownFields)")
	g.p("\treturn y")
	g.p("}")
	g.p("")
}

// detBuild: a map with 0..mapN entries, symbolic pairwise-distinct keys over their full
// domain (key ORDER is what determinism depends on) and fixed representative values (the
// value's magnitude only multiplies varint-size paths).
func (g *gen) detBuild(m *Message, f *Field) {
	g.p("func vhDetBuild_%s_%s(x *%s, p string) {", m.GoName, f.GoName, m.GoName)
	g.p("\tn := vhChoice(p+\".n\", %d)", g.mapN+2)
	g.p("\tif n == %d {", g.mapN+1)
	g.p("\t\tx.%s = %s{}", f.GoName, f.MapGo)
	g.p("\t\treturn")
	g.p("\t}")
	g.p("\tif n > 0 {")
	g.p("\t\tx.%s = %s{}", f.GoName, f.MapGo)
	g.p("\t}")
	g.p("\tvar keys []%s", f.Key.GoType)
	g.p("\tfor i := 0; i < n; i++ {")
	g.p("\t\tk := %s", g.symExpr(f.Key, "vhIdx(p+\".k\", i)", g.keyLen))
	if g.tier != "thorough" {
		// quick tier: keys in a window with a single varint length (the order of keys, not
		// their encoded size, is what determinism depends on); thorough: full domain
		switch f.Key.Kind {
		case "int32", "int64", "sint32", "sint64":
			g.p("\t\tvhAssume(k >= -64)")
			g.p("\t\tvhAssume(k <= 63)")
		case "uint32", "uint64":
			g.p("\t\tvhAssume(k <= 127)")
		}
	}
	g.p("\t\tfor _, o := range keys {")
	g.p("\t\t\tvhAssume(k != o)")
	g.p("\t\t}")
	g.p("\t\tkeys = append(keys, k)")
	if f.Val.Kind == "message" && f.Val.MsgName != "" {
		g.p("\t\tv := &%s{}", f.Val.MsgName)
		g.p("\t\tif i == 0 {")
		g.p("\t\t\tvhFill_%s(v)", f.Val.MsgName)
		g.p("\t\t}")
		g.p("\t\tx.%s[k] = v", f.GoName)
	} else {
		g.p("\t\tif i == 0 {")
		g.p("\t\t\tx.%s[k] = %s", f.GoName, g.concExpr(f.Val, 1))
		g.p("\t\t} else {")
		g.p("\t\t\tx.%s[k] = %s", f.GoName, g.concExpr(f.Val, 2))
		g.p("\t\t}")
	}
	g.p("\t}")
	g.p("}")
	g.p("")
}

func (g *gen) detHarnesses(m *Message) {
	n := m.GoName
	// top-level map fields
	for _, f := range m.All {
		if f.Card == "map" {
			g.p("func VH_C05_%s_%s() {", n, f.GoName)
			g.p("\tx := &%s{}", n)
			g.p("\tvhDetBuild_%s_%s(x, \"a\")", n, f.GoName)
			g.p("\tvhC05_%s(x)", n)
			g.p("}")
			g.p("")
		}
	}
	// maps one or two levels down, in every container shape: Deterministic must propagate
	// through every nested marshal call
	type hop struct {
		c  *Field
		tn string
	}
	hopsOf := func(mm *Message) []hop {
		var out []hop
		for _, c := range mm.All {
			tn := ""
			switch {
			case c.Card == "map" && c.Val.Kind == "message":
				tn = c.Val.MsgName
			case c.Kind == "message" && c.Card != "map":
				tn = c.MsgName
			}
			if tn != "" {
				out = append(out, hop{c, tn})
			}
		}
		return out
	}
	firstMap := func(mm *Message) *Field {
		for _, f := range mm.All {
			if f.Card == "map" {
				return f
			}
		}
		return nil
	}
	attach := func(parent string, c *Field, child string, ind string) {
		switch c.Card {
		case "singular":
			g.p("%s%s.%s = %s", ind, parent, c.GoName, child)
		case "repeated":
			g.p("%s%s.%s = %s{%s}", ind, parent, c.GoName, c.GoType, child)
		case "oneof":
			g.p("%s%s.%s = &%s{%s: %s}", ind, parent, c.Oneof.GoName, c.Wrapper, c.WField, child)
		case "map":
			g.p("%s{", ind)
			g.p("%s\tvar zk %s", ind, c.Key.GoType)
			g.p("%s\t%s.%s = %s{zk: %s}", ind, parent, c.GoName, c.MapGo, child)
			g.p("%s}", ind)
		}
	}
	for _, h1 := range hopsOf(m) {
		t1 := g.s.ByName[h1.tn]
		if mf := firstMap(t1); mf != nil {
			g.p("// a map inside the message held by %s (%s)", h1.c.GoName, h1.c.Card)
			g.p("func VH_C05_%s_via_%s() {", n, h1.c.GoName)
			g.p("\tx := &%s{}", n)
			g.p("\tt := &%s{}", h1.tn)
			g.p("\tvhDetBuild_%s_%s(t, \"a\")", h1.tn, mf.GoName)
			attach("x", h1.c, "t", "\t")
			g.p("\tvhC05_%s(x)", n)
			g.p("}")
			g.p("")
			continue
		}
		// the direct child has no map: go one level further (first grandchild that has one)
		for _, h2 := range hopsOf(t1) {
			t2 := g.s.ByName[h2.tn]
			mf := firstMap(t2)
			if mf == nil {
				continue
			}
			g.p("// a map two levels down: %s (%s) -> %s (%s)", h1.c.GoName, h1.c.Card, h2.c.GoName, h2.c.Card)
			g.p("func VH_C05_%s_via_%s_%s() {", n, h1.c.GoName, h2.c.GoName)
			g.p("\tx := &%s{}", n)
			g.p("\tt1 := &%s{}", h1.tn)
			g.p("\tt2 := &%s{}", h2.tn)
			g.p("\tvhDetBuild_%s_%s(t2, \"a\")", h2.tn, mf.GoName)
			attach("t1", h2.c, "t2", "\t")
			attach("x", h1.c, "t1", "\t")
			g.p("\tvhC05_%s(x)", n)
			g.p("}")
			g.p("")
			break
		}
	}
}

func (g *gen) MiscSource(prop string, msgs []*Message, fieldFilter func(m *Message, f *Field) bool) string {
	if prop == "C05" && g.mapN < 2 {
		g.mapN = 2
	}
	g.propTag = prop
	g.header()
	g.driversOnce()
	g.decodeCommon()
	g.p("func vhFlipBytes(b []byte) []byte {")
	g.p("\tif b == nil {")
	g.p("\t\treturn []byte{}")
	g.p("\t}")
	g.p("\tif len(b) == 0 {")
	g.p("\t\treturn nil")
	g.p("\t}")
	g.p("\treturn append([]byte{}, b...)")
	g.p("}")
	g.p("")
	for _, m := range g.s.Msgs {
		g.specMessage(m)
		for _, f := range m.All {
			g.buildField(m, f)
		}
		g.anyMessage(m)
		g.fillMessage(m)
		g.decodeDrivers(m)
		switch prop {
		case "C07":
			g.noAliasMessage(m)
		case "C05":
			g.cloneRevMessage(m)
			g.detDriver(m)
			for _, f := range m.All {
				if f.Card == "map" {
					g.detBuild(m, f)
				}
			}
		}
	}
	for _, m := range msgs {
		switch prop {
		case "C07":
			for _, f := range m.All {
				if fieldFilter != nil && !fieldFilter(m, f) {
					continue
				}
				g.aliasHarness(m, f)
			}
			g.aliasUnknown(m)
		case "C05":
			g.detHarnesses(m)
		}
	}
	return g.sb.String()
}

func (g *gen) aliasUnknown(m *Message) {
	n := m.GoName
	g.p("// unknown fields: kept by copy, never by reference to the input")
	g.p("func VH_C07_%s_unknown_dec() {", n)
	g.p("\tbuf := append([]byte{}, vhUnknown_%s(\"u\")...)", n)
	g.p("\tsnap := vhSnapshot(buf)")
	g.p("\tx := &%s{}", n)
	g.p("\tif vhChoice(\"merge\", 2) == 1 {")
	g.p("\t\tx.unknownFields = vhBytes(\"old\", 4)")
	g.p("\t}")
	g.p("\terr := vhUnmarshalStep_%s(x, buf, 0)", n)
	g.p("\tvhAssert(\"accepts\", err == nil)")
	g.p("\tvhAssert(\"input.unmodified\", vhUnchanged(buf, snap))")
	g.p("\tvhNoAlias_%s(\"noalias\", x, buf)", n)
	g.p("}")
	g.p("")
	g.p("func VH_C07_%s_unknown_enc() {", n)
	g.p("\tx := &%s{}", n)
	g.p("\tx.unknownFields = vhUnknown_%s(\"u\")", n)
	g.p("\tmsg := x.ProtoReflect()")
	g.p("\tmethods := msg.ProtoMethods()")
	g.p("\tvhWatch(x)")
	g.p("\tvhEpoch()")
	g.p("\tvhTrack(true)")
	g.p("\t_ = methods.Size(protoiface.SizeInput{Message: msg})")
	g.p("\tout, err := methods.Marshal(protoiface.MarshalInput{Message: msg})")
	g.p("\tvhTrack(false)")
	g.p("\tvhAssert(\"marshal.noerr\", err == nil)")
	g.p("\tvhAssert(\"message.undisturbed\", vhWrites() == 0)")
	g.p("\tvhNoAlias_%s(\"out.noalias\", x, out.Buf)", n)
	g.p("}")
	g.p("")
}
