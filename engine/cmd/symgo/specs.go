package main

import (
	"fmt"
	"go/types"
	"os"
	"path/filepath"
	"regexp"
	"sort"
	"strings"

	"golang.org/x/tools/go/ssa"

	"symgo/sym"
)

var specs = map[string]func(tier string) (*Plan, error){}

func staticUnit(relDir, pkgName string, files ...string) *Unit {
	u := &Unit{PkgDir: filepath.Join(repoDir, relDir), PkgName: pkgName, Files: map[string]string{}}
	u.Files["zz_vh_prelude.go"] = prelude(pkgName)
	for _, f := range files {
		u.Files["zz_vh_"+f[:len(f)-4]] = readHarnessFile(f)
	}
	u.finish()
	return u
}

var harnessFuncRe = regexp.MustCompile(`(?m)^func (VH_\w+)\(\)`)

// finish (re)generates the registry of harness functions used by native replay.
func (u *Unit) finish() {
	delete(u.Files, "zz_vh_registry.go")
	var names []string
	for _, c := range u.Files {
		for _, m := range harnessFuncRe.FindAllStringSubmatch(c, -1) {
			names = append(names, m[1])
		}
	}
	sort.Strings(names)
	var sb strings.Builder
	sb.WriteString("package " + u.PkgName + "\n\nvar vhHarnesses = map[string]func(){\n")
	for _, n := range names {
		sb.WriteString("\t\"" + n + "\": " + n + ",\n")
	}
	sb.WriteString("}\n")
	u.Files["zz_vh_registry.go"] = sb.String()
}

func (u *Unit) subst(old, new string) {
	for k, c := range u.Files {
		u.Files[k] = strings.ReplaceAll(c, old, new)
	}
}

func init() {
	specs["C15"] = func(tier string) (*Plan, error) {
		u := staticUnit("runtime", "runtime", "runtime_c15.go.txt")
		skipN, groupN := "7", "6"
		maxPaths := 20000
		if tier == "thorough" {
			// measured: one more byte multiplies the group harnesses' paths by ~7 (9/8 bytes
			// exhausted a 20000-path budget); 8/7 is what runs clean
			skipN, groupN = "8", "7"
			maxPaths = 400000
		}
		u.subst("const vhSkipN = 8      // SKIPN", "const vhSkipN = "+skipN)
		u.subst("const vhSkipGroupN = 7 // SKIPGROUPN", "const vhSkipGroupN = "+groupN)
		return &Plan{
			LoadDir:  repoDir,
			Patterns: []string{"./runtime"},
			Units:    []*Unit{u},
			Regex:    "^VH_C15_",
			Cfg:      sym.Config{MaxLoop: 80, NoSummaries: true, MaxPaths: maxPaths}, // C15 is about the real helpers themselves
			Bounds: map[string]string{
				"Sov/Soz":      "all 2^64 values",
				"EncodeVarint": "buffer length 0..2^20 symbolic, offset and value unconstrained 64-bit",
				"Skip":         "no-panic/progress: whole function on buffers of 0.." + skipN + " symbolic bytes; agreement with protowire.ConsumeField: non-group first record on buffers of any length up to 2^20, group records on buffers of 0.." + groupN + " bytes",
			},
		}, nil
	}
}

func init() {
	specs["C17"] = func(tier string) (*Plan, error) {
		u := staticUnit("support/timepb", "timepb", "timepb_c17.go.txt")
		return &Plan{
			LoadDir:  repoDir,
			Patterns: []string{"./support/timepb"},
			Units:    []*Unit{u},
			Regex:    "^VH_C17_",
			Bounds: map[string]string{
				"timestamps/durations": "all 64-bit seconds and 32-bit nanos accepted by the real CheckValid; no value bound",
				"AddStd":               "all 2^64 time.Duration values, through the real SSA of timestamppb.AsTime/New, durationpb.New, time.Unix/Time.Add/addSec/UTC",
				"Compare":              "three arbitrary normalised timestamps",
			},
			Stubs: []string{"protoimpl.X.NewError -> opaque non-nil error", "fmt.Sprint -> opaque string"},
		}, nil
	}
}

// packageInitHook provides the protoreflect descriptors of a generated package: it parses
// every file_*_rawDesc byte slice (already evaluated by the package initialiser) and binds
// the File_* variables to opaque descriptor objects computed from it.
func init() {
	specs["C16"] = func(tier string) (*Plan, error) {
		u := staticUnit("anyutil", "anyutil", "anyutil_c16.go.txt")
		return &Plan{
			LoadDir:  repoDir,
			Patterns: []string{"./anyutil"},
			Units:    []*Unit{u},
			Regex:    "^VH_C16_",
			Bounds: map[string]string{
				"any":       "type URL: arbitrary string of 0..6 bytes; value: 0..4 arbitrary bytes",
				"resolvers": "type resolver: found / NotFound / other error; file resolver: message, enum, service or field descriptor, or NotFound - every combination",
				"source":    "message with an arbitrary full name (0..4 bytes) whose marshaller returns arbitrary bytes (0..4) or an error; Deterministic and AllowPartial symbolic",
			},
			Assume: []string{"protobuf-go's registries, dynamicpb and Any.UnmarshalTo honour their documented contracts (so 'unpacking returns a message equal to m' is relative to them)"},
			Stubs:  []string{"(*anypb.Any).UnmarshalTo -> nil or opaque error", "resolvers, message types and messages are harness-level Go stubs (interpreted by the engine and used unchanged in native replay)", "proto.checkInitialized -> nil"},
		}, nil
	}
}

func init() {
	specs["C18"] = func(tier string) (*Plan, error) {
		u := staticUnit("rapidproto", "rapidproto", "rapidproto_c18.go.txt")
		return &Plan{
			LoadDir:  repoDir,
			Patterns: []string{"./rapidproto"},
			Units:    []*Unit{u},
			Regex:    "^VH_C18_",
			Cfg:      sym.Config{MaxLoop: 40},
			Bounds: map[string]string{
				"draws":       "every value a rapid generator may return: full range of the integer/bool/float generators, XRange(lo,hi) anywhere in [lo,hi], strings and byte slices of 0..3 bytes, slices of 1..2 elements",
				"descriptors": "one field at a time with a symbolic Kind (all 16 scalar kinds), an enum with two arbitrary distinct non-zero numbers besides 0, a repeated int32 field, a self-recursive message; nesting depth symbolic in 0..10",
				"claimed":     "Timestamp/Duration validity for every draw, enum numbers declared, FieldMask paths stored, no Fatalf for legal scalar kinds, NoEmptyLists, DisallowNilMessages, termination on a recursive type within the depth limit",
				"outside":     "rapid's own engine and the UTF-8 validity of rapid.String, genAny (extensions, registry and proto.Marshal), maps, field mappers, that protobuf-go accepts the result (follows from the claimed facts plus protobuf-go)",
			},
			Stubs: []string{"pgregory.net/rapid generators -> opaque descriptions; Draw -> fresh symbol constrained to the generator's documented range", "rapid.T.Fatalf / gotest.tools assert -> generator failure (violation)", "protoreflect Message/List/Descriptor arguments -> harness-level recorder stubs", "fmt.Sprintf -> opaque string", "protoimpl.X.NewError -> opaque error"},
		}, nil
	}
}

func init() {
	specs["C13"] = func(tier string) (*Plan, error) {
		u1 := staticUnit("generator", "generator", "generator_c13.go.txt")
		u2 := staticUnit("features/fastreflection", "fastreflection", "fastreflection_c13.go.txt")
		mr, err := mapRangeInventory()
		if err != nil {
			return nil, err
		}
		return &Plan{
			LoadDir:  repoDir,
			Patterns: []string{"./generator", "./features/fastreflection"},
			Units:    []*Unit{u1, u2},
			Regex:    "^VH_C13_",
			Cfg:      sym.Config{MaxLoop: 40},
			Bounds: map[string]string{
				"claimed":     "order-insensitivity of every range-over-map in the generator's own packages: findFeatures (<= 3 requested names out of {a,b,c,all,unknown}, 3 registered features) and the message-index scan of generateReflectionType (3 messages with symbolic distinct full names of <= 2 bytes and arbitrary short names of <= 1 byte), each under every iteration order",
				"inventory":   "the set of map-range sites is recomputed from SSA on every run; a site that no harness covers makes the check INCONCLUSIVE",
				"not claimed": "byte-identity across fresh processes, independence from co-generated files and their order, absence of timestamps/paths/environment text (whole-program facts about string templating; observing them is differential execution, a different technique)",
			},
			Extra: map[string]interface{}{"map_range_sites": mr},
			Stubs: []string{"protogen/protoreflect descriptors -> harness-level Go stubs", "sort.Slice -> insertion sort driving the real comparison"},
		}, nil
	}
}

// mapRangeInventory lists every range-over-map instruction in the generator's packages
// and fails if one is not in the covered set.
func mapRangeInventory() ([]string, error) {
	l, err := sym.Load(repoDir, []string{"./cmd/protoc-gen-go-pulsar", "./generator", "./features/fastreflection", "./features/fastreflection/copied", "./features/protoc"}, nil, os.Environ())
	if err != nil {
		return nil, err
	}
	covered := map[string]bool{
		"github.com/cosmos/cosmos-proto/generator.findFeatures":                                                      true,
		"(*github.com/cosmos/cosmos-proto/features/fastreflection.fastGenerator).generateReflectionType$1":          true,
	}
	var sites []string
	var bad []string
	for _, p := range l.SSA {
		if p == nil {
			continue
		}
		for fn := range sym.AllFunctions(l.Prog) {
			if fn.Pkg != p && (fn.Parent() == nil || fn.Parent().Pkg != p) {
				continue
			}
			for _, b := range fn.Blocks {
				for _, in := range b.Instrs {
					if r, ok := in.(*ssa.Range); ok {
						if _, isMap := r.X.Type().Underlying().(*types.Map); isMap {
							site := fn.String()
							sites = append(sites, site)
							if !covered[site] {
								bad = append(bad, site)
							}
						}
					}
				}
			}
		}
	}
	sort.Strings(sites)
	if len(bad) > 0 {
		return sites, fmt.Errorf("unclassified map iteration in generator code: %v", bad)
	}
	return sites, nil
}

func packageInitHook(e *sym.Exec, pkg *ssa.Package) {
	var names []string
	for n := range pkg.Members {
		names = append(names, n)
	}
	sort.Strings(names)
	for _, n := range names {
		g, ok := pkg.Members[n].(*ssa.Global)
		if !ok || !strings.HasPrefix(n, "file_") || !strings.HasSuffix(n, "_rawDesc") {
			continue
		}
		b, err := e.ConcreteBytesOfGlobal(g)
		if err != nil {
			continue
		}
		node, err := e.RegisterRawDesc(b)
		if err != nil {
			continue
		}
		fileVar := "File_" + strings.TrimSuffix(strings.TrimPrefix(n, "file_"), "_rawDesc")
		if fg, ok := pkg.Members[fileVar].(*ssa.Global); ok {
			e.SetGlobal(fg, e.FileDescriptorValue(node))
		}
	}
}

// runSelftest is the translator validation: harnesses with every input fixed are run
// by the symbolic executor (then a plain SSA interpreter) and natively; both must record
// exactly the same sequence of values.
func runSelftest() int {
	units := []*Unit{
		staticUnit("runtime", "runtime", "runtime_self.go.txt"),
		staticUnit("testpb", "testpb", "testpb_self.go.txt"),
		staticUnit("support/timepb", "timepb", "timepb_self.go.txt"),
	}
	l, err := sym.Load(repoDir, []string{"./runtime", "./testpb", "./support/timepb"}, overlayFor(units), os.Environ())
	if err != nil {
		fmt.Println("selftest: load failed:", err)
		return 2
	}
	fns := l.Harnesses(regexp.MustCompile("^VH_SELF_"))
	cfg := sym.Config{MaxLoop: 5000, RepoPrefix: repoMod}
	res, err := sym.RunAll(l, fns, 4, "z3", 60000, cfg, sym.Hooks{PackageInit: packageInitHook}, nil)
	if err != nil {
		fmt.Println("selftest:", err)
		return 2
	}
	bad := 0
	total := 0
	for i, f := range fns {
		r := res[i]
		if len(r.Inconclusive) > 0 || len(r.Violations) > 0 || r.Paths != 1 {
			fmt.Printf("selftest: %s did not run as one concrete path: paths=%d %v\n", f.Name(), r.Paths, r.Inconclusive)
			bad++
			continue
		}
		var u *Unit
		for _, x := range units {
			if pkgDirOf(l, f.Pkg.Pkg.Path()) == x.PkgDir {
				u = x
			}
		}
		out := nativeReplayRaw(&ReplayFile{Harness: f.Name(), PkgDir: u.PkgDir, PkgName: u.PkgName, Files: u.Files, Model: map[string]string{}})
		var native []string
		for _, line := range strings.Split(out, "\n") {
			if strings.HasPrefix(line, "VHREC ") {
				native = append(native, strings.TrimPrefix(line, "VHREC "))
			}
		}
		total += len(native)
		if len(native) == 0 || len(native) != len(r.Records) {
			fmt.Printf("selftest: %s: %d native records vs %d engine records\n", f.Name(), len(native), len(r.Records))
			bad++
			continue
		}
		for k := range native {
			if native[k] != r.Records[k] {
				fmt.Printf("selftest: %s record %d differs: native %q engine %q\n", f.Name(), k, native[k], r.Records[k])
				bad++
				break
			}
		}
	}
	// model validation (native, non-deciding): the generated specification encoder must
	// produce exactly the bytes of protobuf-go's reflection-driven deterministic encoder
	// (dynamicpb) on populated, partially populated and empty messages of every type
	specChecked := 0
	units2, _, err := codecUnits([]string{"C02"}, "quick", "codec", func(g *gen, msgs []*Message) string {
		src := g.CodecSource([]string{"C02"}, nil, false, nil)
		return src
	})
	if err != nil {
		fmt.Println("selftest: harness generation failed:", err)
		return 2
	}
	for _, u := range units2 {
		var sb strings.Builder
		sb.WriteString("package " + u.PkgName + "\n\nimport (\n\t\"bytes\"\n\t\"fmt\"\n\t\"testing\"\n\n\t\"google.golang.org/protobuf/proto\"\n\t\"google.golang.org/protobuf/types/dynamicpb\"\n)\n\n")
		sb.WriteString("func vhSpecCheck(t *testing.T, name string, x proto.Message, spec []byte) {\n\tdyn := dynamicpb.NewMessage(x.ProtoReflect().Descriptor())\n\tproto.Merge(dyn, x)\n\twant, err := proto.MarshalOptions{Deterministic: true}.Marshal(dyn)\n\tif err != nil || !bytes.Equal(want, spec) {\n\t\tt.Errorf(\"%s: spec %x, reference %x (%v)\", name, spec, want, err)\n\t}\n\tfmt.Println(\"VHSPEC\", name)\n}\n\n")
		sb.WriteString("func TestVHSpecValidation(t *testing.T) {\n")
		src := u.Files["zz_vh_codec.go"]
		for _, mm := range regexp.MustCompile(`(?m)^func vhFill_(\w+)\(`).FindAllStringSubmatch(src, -1) {
			n := mm[1]
			sb.WriteString(fmt.Sprintf("\t{\n\t\tx := &%s{}\n\t\tvhSpecCheck(t, \"%s.empty\", x, vhSpec_%s(nil, x))\n\t\tvhFill_%s(x)\n\t\tvhSpecCheck(t, \"%s.filled\", x, vhSpec_%s(nil, x))\n\t\tx.unknownFields = []byte{0x80, 0xa4, 0x3c, 0x07}\n\t\tvhSpecCheck(t, \"%s.unknown\", x, vhSpec_%s(nil, x))\n\t\tvhFill2_%s(x)\n\t\tvhSpecCheck(t, \"%s.maps\", x, vhSpec_%s(nil, x))\n\t}\n", n, n, n, n, n, n, n, n, n, n, n))
		}
		sb.WriteString("}\n")
		out := nativeRun(&ReplayFile{PkgDir: u.PkgDir, PkgName: u.PkgName, Files: u.Files, Model: map[string]string{}}, sb.String(), "^TestVHSpecValidation$")
		n := strings.Count(out, "VHSPEC ")
		specChecked += n
		if n == 0 || strings.Contains(out, "--- FAIL") || !strings.Contains(out, "\nok") && !strings.Contains(out, "PASS") {
			os.WriteFile("/tmp/symgo-selftest-fail.txt", []byte(out), 0o644)
			fmt.Printf("selftest: specification encoder disagrees with dynamicpb in %s (full output in /tmp/symgo-selftest-fail.txt):\n%s\n", u.PkgName, trunc(out, 1500))
			bad++
		}
	}
	if bad > 0 {
		fmt.Println("selftest FAILED: the executor or the specification disagrees with the native build; nothing they say is believed")
		return 1
	}
	total += specChecked
	fmt.Printf("selftest ok: %d harnesses, %d recorded values agree between the executor and the native build (incl. %d messages whose specification encoding equals dynamicpb's)\n", len(fns), total, specChecked)
	return 0
}

func getenv(k string) string { return os.Getenv(k) }
func writeFile(p, c string) {
	os.MkdirAll(filepath.Dir(p), 0o755)
	os.WriteFile(p, []byte(c), 0o644)
}
