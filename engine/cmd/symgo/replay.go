package main

import (
	"encoding/json"
	"fmt"
	"os"
	"os/exec"
	"path/filepath"
	"strings"
	"time"
)

type ReplayFile struct {
	Property      string
	Harness       string
	Assert        string
	Kind          string
	Detail        string
	Model         map[string]string
	PkgDir        string
	PkgName       string
	Files         map[string]string
	NativeOutcome string
	ModDir        string            `json:",omitempty"`
	ModFiles      map[string]string `json:",omitempty"`
}

// nativeReplay runs the harness natively (go test -overlay) with the model's inputs.
func nativeReplay(rep *ReplayFile) string {
	return classifyReplay(nativeReplayRaw(rep))
}

func classifyReplay(s string) string {
	if strings.HasPrefix(s, "error:") {
		return s
	}
	for _, line := range strings.Split(s, "\n") {
		if strings.HasPrefix(line, "VHREPLAY: ") {
			return strings.TrimPrefix(line, "VHREPLAY: ")
		}
	}
	if strings.Contains(s, "panic:") || strings.Contains(s, "fatal error:") {
		i := strings.Index(s, "panic:")
		if i < 0 {
			i = strings.Index(s, "fatal error:")
		}
		return "panic (process) " + trunc(strings.ReplaceAll(s[i:], "\n", " | "), 300)
	}
	return "error: no VHREPLAY line: " + trunc(strings.ReplaceAll(s, "\n", " | "), 400)
}

// nativeReplayRaw returns the raw output of the native run.
func nativeReplayRaw(rep *ReplayFile) string {
	return nativeRun(rep, preludeTest(rep.PkgName), "^TestVHReplay$")
}

func nativeRun(rep *ReplayFile, testSrc, runRe string) string {
	tmp, err := os.MkdirTemp("", "symgo-replay-")
	if err != nil {
		return "error: " + err.Error()
	}
	defer os.RemoveAll(tmp)
	if rep.ModFiles != nil {
		if _, err := os.Stat(rep.PkgDir); err != nil {
			// the scratch module is gone: rebuild it from the recorded files
			mod := filepath.Join(tmp, "mod")
			for name, content := range rep.ModFiles {
				p := filepath.Join(mod, name)
				os.MkdirAll(filepath.Dir(p), 0o755)
				os.WriteFile(p, []byte(content), 0o644)
			}
			if sum, err := os.ReadFile(filepath.Join(repoDir, "go.sum")); err == nil {
				os.WriteFile(filepath.Join(mod, "go.sum"), sum, 0o644)
			}
			rel, _ := filepath.Rel(rep.ModDir, rep.PkgDir)
			rep = &ReplayFile{Property: rep.Property, Harness: rep.Harness, Assert: rep.Assert, Kind: rep.Kind, Model: rep.Model, PkgDir: filepath.Join(mod, rel), PkgName: rep.PkgName, Files: rep.Files}
		}
	}
	replace := map[string]string{}
	put := func(name, content string) {
		p := filepath.Join(tmp, name)
		os.WriteFile(p, []byte(content), 0o644)
		replace[filepath.Join(rep.PkgDir, name)] = p
	}
	for n, c := range rep.Files {
		put(n, c)
	}
	put("zz_vh_replay_test.go", testSrc)
	if wg := rep.Model["_written_globals"]; wg != "" {
		// the executor saw writes to these package-level variables: watch them natively
		var sb strings.Builder
		sb.WriteString("package " + rep.PkgName + "\n\nfunc init() {\n\tvhExtraWatch = func() {\n")
		for _, n := range strings.Split(wg, ",") {
			sb.WriteString("\t\tvhWatch(&" + n + ")\n")
		}
		sb.WriteString("\t}\n}\n")
		put("zz_vh_watchglobals.go", sb.String())
	}
	ovb, _ := json.Marshal(map[string]interface{}{"Replace": replace})
	ovPath := filepath.Join(tmp, "overlay.json")
	os.WriteFile(ovPath, ovb, 0o644)
	modelPath := filepath.Join(tmp, "model.json")
	mb, _ := json.Marshal(map[string]interface{}{"Model": rep.Model})
	os.WriteFile(modelPath, mb, 0o644)
	cmd := exec.Command("go", "test", "-vet=off", "-count=1", "-run", runRe, "-v", "-overlay", ovPath, ".")
	cmd.Dir = rep.PkgDir
	cmd.Env = append(os.Environ(), "VH_REPLAY="+modelPath, "VH_HARNESS="+rep.Harness)
	done := make(chan struct{})
	var out []byte
	go func() { out, err = cmd.CombinedOutput(); close(done) }()
	select {
	case <-done:
	case <-time.After(5 * time.Minute):
		cmd.Process.Kill()
		return "error: replay timeout"
	}
	return string(out)
}

func runReplayCmd(path string) int {
	b, err := os.ReadFile(path)
	if err != nil {
		fmt.Fprintln(os.Stderr, err)
		return 2
	}
	var rep ReplayFile
	if err := json.Unmarshal(b, &rep); err != nil {
		fmt.Fprintln(os.Stderr, err)
		return 2
	}
	if rep.Kind == "pipeline" {
		fmt.Printf("pipeline failure recorded: %s\n", rep.Detail)
		return 1
	}
	out := nativeReplay(&rep)
	fmt.Printf("replay %s %s/%s: %s\n", rep.Property, rep.Harness, rep.Assert, out)
	if strings.HasPrefix(out, "violated") || strings.HasPrefix(out, "panic") {
		return 1
	}
	return 0
}
