package main

import (
	"encoding/json"
	"fmt"
	"os"
	"os/exec"
	"path/filepath"
	"regexp"
	"strings"
	"time"
)

type ReplayFile struct {
	Property      string
	Harness       string
	Assert        string
	Kind          string
	Detail        string
	Model         map[string]string
	PkgDir        string
	PkgName       string
	Files         map[string]string
	NativeOutcome string
	ModDir        string            `json:",omitempty"`
	ModFiles      map[string]string `json:",omitempty"`
}

var replayTimeout = 5 * time.Minute

// nativeReplay runs the harness natively (go test -overlay) with the model's inputs.
func nativeReplay(rep *ReplayFile) string {
	return classifyReplay(nativeReplayRaw(rep))
}

func classifyReplay(s string) string {
	if strings.HasPrefix(s, "error:") {
		return s
	}
	for _, line := range strings.Split(s, "\n") {
		if strings.HasPrefix(line, "VHREPLAY: ") {
			return strings.TrimPrefix(line, "VHREPLAY: ")
		}
	}
	if strings.Contains(s, "panic:") || strings.Contains(s, "fatal error:") {
		i := strings.Index(s, "panic:")
		if i < 0 {
			i = strings.Index(s, "fatal error:")
		}
		return "panic (process) " + trunc(strings.ReplaceAll(s[i:], "\n", " | "), 300)
	}
	return "error: no VHREPLAY line: " + trunc(strings.ReplaceAll(s, "\n", " | "), 400)
}

// nativeReplayRaw returns the raw output of the native run.
func nativeReplayRaw(rep *ReplayFile) string {
	return nativeRun(rep, preludeTest(rep.PkgName), "^TestVHReplay$")
}

// writeLocRe picks the source positions of the writes the executor reported for a
// write-set assertion ("write to pre-existing object X at file.go:123").
var writeLocRe = regexp.MustCompile(`write to pre-existing object \S+ at ([^\s;\]]+:\d+)`)

// nativeRaceConfirm is the native confirmation for write-set violations whose writes
// store what is already there: the harness runs in two goroutines under the race
// detector, and the violation counts as reproduced only when a reported data race has
// one of the executor's write positions on a stack.
func nativeRaceConfirm(rep *ReplayFile) string {
	locs := map[string]bool{}
	for _, m := range writeLocRe.FindAllStringSubmatch(rep.Detail, -1) {
		locs[m[1]] = true
	}
	if len(locs) == 0 {
		return ""
	}
	out := nativeRunArgs(rep, preludeTest(rep.PkgName), "^TestVHRace$", "-race")
	if strings.HasPrefix(out, "error:") {
		return out
	}
	for _, blk := range strings.Split(out, "WARNING: DATA RACE")[1:] {
		if i := strings.Index(blk, "=================="); i >= 0 {
			blk = blk[:i]
		}
		for l := range locs {
			if strings.Contains(blk, "/"+l+" ") || strings.Contains(blk, "/"+l+"\n") {
				return "violated (data race between two readers, write at " + l + ")"
			}
		}
	}
	if !strings.Contains(out, "VHRACE: done") {
		return "error: race run incomplete: " + trunc(strings.ReplaceAll(out, "\n", " | "), 300)
	}
	return "ok (no data race at the reported write positions)"
}

func nativeRun(rep *ReplayFile, testSrc, runRe string) string {
	return nativeRunArgs(rep, testSrc, runRe)
}

func nativeRunArgs(rep *ReplayFile, testSrc, runRe string, extra ...string) string {
	tmp, err := os.MkdirTemp("", "symgo-replay-")
	if err != nil {
		return "error: " + err.Error()
	}
	defer os.RemoveAll(tmp)
	if rep.ModFiles != nil {
		if _, err := os.Stat(rep.PkgDir); err != nil {
			// the scratch module is gone: rebuild it from the recorded files
			mod := filepath.Join(tmp, "mod")
			for name, content := range rep.ModFiles {
				p := filepath.Join(mod, name)
				os.MkdirAll(filepath.Dir(p), 0o755)
				os.WriteFile(p, []byte(content), 0o644)
			}
			if sum, err := os.ReadFile(filepath.Join(repoDir, "go.sum")); err == nil {
				os.WriteFile(filepath.Join(mod, "go.sum"), sum, 0o644)
			}
			rel, _ := filepath.Rel(rep.ModDir, rep.PkgDir)
			rep = &ReplayFile{Property: rep.Property, Harness: rep.Harness, Assert: rep.Assert, Kind: rep.Kind, Model: rep.Model, PkgDir: filepath.Join(mod, rel), PkgName: rep.PkgName, Files: rep.Files}
		}
	}
	replace := map[string]string{}
	put := func(name, content string) {
		p := filepath.Join(tmp, name)
		os.WriteFile(p, []byte(content), 0o644)
		replace[filepath.Join(rep.PkgDir, name)] = p
	}
	for n, c := range rep.Files {
		put(n, c)
	}
	put("zz_vh_replay_test.go", testSrc)
	if wg := rep.Model["_written_globals"]; wg != "" {
		// the executor saw writes to these package-level variables: watch them natively
		var sb strings.Builder
		sb.WriteString("package " + rep.PkgName + "\n\nfunc init() {\n\tvhExtraWatch = func() {\n")
		for _, n := range strings.Split(wg, ",") {
			sb.WriteString("\t\tvhWatch(&" + n + ")\n")
		}
		sb.WriteString("\t}\n}\n")
		put("zz_vh_watchglobals.go", sb.String())
	}
	ovb, _ := json.Marshal(map[string]interface{}{"Replace": replace})
	ovPath := filepath.Join(tmp, "overlay.json")
	os.WriteFile(ovPath, ovb, 0o644)
	modelPath := filepath.Join(tmp, "model.json")
	mb, _ := json.Marshal(map[string]interface{}{"Model": rep.Model})
	os.WriteFile(modelPath, mb, 0o644)
	args := append([]string{"test", "-vet=off", "-count=1"}, extra...)
	args = append(args, "-run", runRe, "-v", "-overlay", ovPath, ".")
	cmd := exec.Command("go", args...)
	cmd.Dir = rep.PkgDir
	cmd.Env = append(os.Environ(), "VH_REPLAY="+modelPath, "VH_HARNESS="+rep.Harness)
	done := make(chan struct{})
	var out []byte
	go func() { out, err = cmd.CombinedOutput(); close(done) }()
	select {
	case <-done:
	case <-time.After(replayTimeout):
		cmd.Process.Kill()
		return "error: replay timeout"
	}
	return string(out)
}

func runReplayCmd(path string) int {
	b, err := os.ReadFile(path)
	if err != nil {
		fmt.Fprintln(os.Stderr, err)
		return 2
	}
	var rep ReplayFile
	if err := json.Unmarshal(b, &rep); err != nil {
		fmt.Fprintln(os.Stderr, err)
		return 2
	}
	if rep.Kind == "pipeline" {
		fmt.Printf("pipeline failure recorded: %s\n", rep.Detail)
		return 1
	}
	if rep.Kind == "unwind" {
		raw := nativeRunArgs(&rep, preludeTest(rep.PkgName), "^TestVHReplay$", "-timeout=20s")
		if strings.Contains(raw, "test timed out after 20s") {
			fmt.Printf("replay %s %s/%s: no result within 20 s natively\n", rep.Property, rep.Harness, rep.Assert)
			return 1
		}
		fmt.Printf("replay %s %s/%s: %s\n", rep.Property, rep.Harness, rep.Assert, classifyReplay(raw))
		return 0
	}
	out := nativeReplay(&rep)
	if out == "ok" && strings.Contains(rep.Detail, "write to pre-existing object") {
		if rc := nativeRaceConfirm(&rep); rc != "" {
			out = rc
		}
	}
	fmt.Printf("replay %s %s/%s: %s\n", rep.Property, rep.Harness, rep.Assert, out)
	if strings.HasPrefix(out, "violated") || strings.HasPrefix(out, "panic") {
		return 1
	}
	return 0
}
