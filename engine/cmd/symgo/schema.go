package main

import (
	"fmt"
	"go/types"
	"reflect"
	"sort"
	"strconv"
	"strings"

	"golang.org/x/tools/go/packages"
)

// Field describes one protobuf field of a generated message, recovered from the Go
// struct tags protoc-gen-go emits (`protobuf:"varint,6,opt,name=INT64,proto3"`).
type Field struct {
	GoName  string
	Number  int
	Name    string
	Kind    string // int32 int64 uint32 uint64 sint32 sint64 bool enum fixed32 sfixed32 float fixed64 sfixed64 double string bytes message
	Card    string // singular repeated map oneof
	Packed  bool
	GoType  string // Go type of the struct field (or of the wrapper's field for oneof members)
	ElemGo  string // element Go type for repeated
	MsgName string // Go name of the message type if Kind == message and it is a pulsar message of this package
	Foreign bool   // message type from another package (opaque)
	Oneof   *Oneof
	Wrapper string // oneof wrapper struct type name
	WField  string // field name inside wrapper
	Key     *Field // map key
	Val     *Field // map value
	MapGo   string
}

type Oneof struct {
	GoName  string
	Name    string
	Iface   string
	Members []*Field
}

type Message struct {
	GoName string
	Fields []*Field // non-oneof fields in struct order
	Oneofs []*Oneof
	All    []*Field // all fields incl. oneof members, ascending by number
}

type Schema struct {
	PkgPath string
	PkgName string
	Dir     string
	Msgs    []*Message
	ByName  map[string]*Message
	Imports map[string]string // import path -> alias used in GoType strings
	Enums   []string
}

func wireKind(f *Field) string {
	switch f.Kind {
	case "int32", "int64", "uint32", "uint64", "sint32", "sint64", "bool", "enum":
		return "Varint"
	case "fixed32", "sfixed32", "float":
		return "Fixed32"
	case "fixed64", "sfixed64", "double":
		return "Fixed64"
	}
	return "Bytes"
}

func isPackable(f *Field) bool { return wireKind(f) != "Bytes" }

func parseTag(tag string) (enc string, num int, rep bool, packed bool, name string, oneof bool, enum string) {
	parts := strings.Split(tag, ",")
	if len(parts) < 3 {
		return
	}
	enc = parts[0]
	num, _ = strconv.Atoi(parts[1])
	for _, p := range parts[2:] {
		switch {
		case p == "rep":
			rep = true
		case p == "packed":
			packed = true
		case p == "oneof":
			oneof = true
		case strings.HasPrefix(p, "name="):
			name = p[5:]
		case strings.HasPrefix(p, "enum="):
			enum = p[5:]
		}
	}
	return
}

func kindOf(enc string, gt types.Type, enum string) string {
	bt := ""
	if b, ok := gt.Underlying().(*types.Basic); ok {
		bt = b.Name()
	}
	switch enc {
	case "varint":
		if enum != "" {
			return "enum"
		}
		if _, named := gt.(*types.Named); named && bt == "int32" {
			return "enum"
		}
		return bt // int32 int64 uint32 uint64 bool
	case "zigzag32":
		return "sint32"
	case "zigzag64":
		return "sint64"
	case "fixed32":
		switch bt {
		case "uint32":
			return "fixed32"
		case "int32":
			return "sfixed32"
		case "float32":
			return "float"
		}
	case "fixed64":
		switch bt {
		case "uint64":
			return "fixed64"
		case "int64":
			return "sfixed64"
		case "float64":
			return "double"
		}
	case "bytes":
		if bt == "string" {
			return "string"
		}
		if _, ok := gt.Underlying().(*types.Slice); ok {
			return "bytes"
		}
		return "message"
	}
	return "?" + enc + "/" + bt
}

// ExtractSchema finds pulsar message types in a type-checked package.
func ExtractSchema(p *packages.Package) (*Schema, error) {
	s := &Schema{PkgPath: p.PkgPath, PkgName: p.Name, ByName: map[string]*Message{}, Imports: map[string]string{}}
	if len(p.GoFiles) > 0 {
		s.Dir = dirOf(p.GoFiles[0])
	}
	scope := p.Types.Scope()
	qual := func(other *types.Package) string {
		if other == p.Types {
			return ""
		}
		alias := "vhimp_" + strings.NewReplacer("/", "_", ".", "_", "-", "_").Replace(other.Path())
		s.Imports[other.Path()] = alias
		return alias
	}
	ts := func(t types.Type) string { return types.TypeString(t, qual) }
	names := scope.Names()
	sort.Strings(names)
	isMsg := func(n string) bool {
		return scope.Lookup("fastReflection_"+n) != nil
	}
	for _, n := range names {
		tn, ok := scope.Lookup(n).(*types.TypeName)
		if !ok {
			continue
		}
		if b, ok := tn.Type().Underlying().(*types.Basic); ok && b.Kind() == types.Int32 {
			if obj, _, _ := types.LookupFieldOrMethod(tn.Type(), false, p.Types, "EnumDescriptor"); obj != nil {
				s.Enums = append(s.Enums, n)
			}
			continue
		}
		st, ok := tn.Type().Underlying().(*types.Struct)
		if !ok || !isMsg(n) || strings.HasPrefix(n, "fastReflection_") {
			continue
		}
		m := &Message{GoName: n}
		mkField := func(v *types.Var, tag reflect.StructTag) (*Field, error) {
			enc, num, rep, packed, name, _, enum := parseTag(tag.Get("protobuf"))
			f := &Field{GoName: v.Name(), Number: num, Name: name, GoType: ts(v.Type()), Packed: packed}
			t := v.Type()
			if mt, ok := t.Underlying().(*types.Map); ok && tag.Get("protobuf_key") != "" {
				f.Card = "map"
				f.Kind = "message"
				f.MapGo = ts(t)
				kenc, _, _, _, _, _, kenum := parseTag(tag.Get("protobuf_key"))
				venc, _, _, _, _, _, venum := parseTag(tag.Get("protobuf_val"))
				f.Key = &Field{GoName: "key", Number: 1, Card: "singular", GoType: ts(mt.Key()), Kind: kindOf(kenc, mt.Key(), kenum)}
				f.Val = &Field{GoName: "value", Number: 2, Card: "singular", GoType: ts(mt.Elem()), Kind: kindOf(venc, mt.Elem(), venum)}
				if f.Val.Kind == "message" {
					setMsg(f.Val, mt.Elem(), p.Types, isMsg)
				}
				return f, nil
			}
			et := t
			if rep {
				f.Card = "repeated"
				sl, ok := t.Underlying().(*types.Slice)
				if !ok {
					return nil, fmt.Errorf("%s.%s: repeated but not a slice", n, v.Name())
				}
				et = sl.Elem()
				f.ElemGo = ts(et)
			} else {
				f.Card = "singular"
			}
			f.Kind = kindOf(enc, et, enum)
			if strings.HasPrefix(f.Kind, "?") {
				return nil, fmt.Errorf("%s.%s: unknown kind %s", n, v.Name(), f.Kind)
			}
			if f.Kind == "message" {
				setMsg(f, et, p.Types, isMsg)
			}
			return f, nil
		}
		for i := 0; i < st.NumFields(); i++ {
			v := st.Field(i)
			tag := reflect.StructTag(st.Tag(i))
			if on := tag.Get("protobuf_oneof"); on != "" {
				o := &Oneof{GoName: v.Name(), Name: on, Iface: ts(v.Type())}
				it, ok := v.Type().Underlying().(*types.Interface)
				if !ok {
					return nil, fmt.Errorf("%s.%s: oneof field is not an interface", n, v.Name())
				}
				for _, wn := range names {
					wtn, ok := scope.Lookup(wn).(*types.TypeName)
					if !ok {
						continue
					}
					wst, ok := wtn.Type().Underlying().(*types.Struct)
					if !ok || wst.NumFields() != 1 {
						continue
					}
					if !types.Implements(types.NewPointer(wtn.Type()), it) {
						continue
					}
					wtag := reflect.StructTag(wst.Tag(0))
					if wtag.Get("protobuf") == "" {
						continue
					}
					f, err := mkField(wst.Field(0), wtag)
					if err != nil {
						return nil, err
					}
					f.Card = "oneof"
					f.Oneof = o
					f.Wrapper = wn
					f.WField = wst.Field(0).Name()
					o.Members = append(o.Members, f)
				}
				sort.Slice(o.Members, func(i, j int) bool { return o.Members[i].Number < o.Members[j].Number })
				m.Oneofs = append(m.Oneofs, o)
				m.All = append(m.All, o.Members...)
				continue
			}
			if tag.Get("protobuf") == "" {
				continue
			}
			f, err := mkField(v, tag)
			if err != nil {
				return nil, err
			}
			m.Fields = append(m.Fields, f)
			m.All = append(m.All, f)
		}
		sort.Slice(m.All, func(i, j int) bool { return m.All[i].Number < m.All[j].Number })
		s.Msgs = append(s.Msgs, m)
		s.ByName[n] = m
	}
	return s, nil
}

func setMsg(f *Field, t types.Type, self *types.Package, isMsg func(string) bool) {
	pt, ok := t.(*types.Pointer)
	if !ok {
		f.Foreign = true
		return
	}
	nt, ok := pt.Elem().(*types.Named)
	if !ok {
		f.Foreign = true
		return
	}
	if nt.Obj().Pkg() == self && isMsg(nt.Obj().Name()) {
		f.MsgName = nt.Obj().Name()
	} else {
		f.Foreign = true
	}
}

func dirOf(f string) string {
	i := strings.LastIndex(f, "/")
	if i < 0 {
		return "."
	}
	return f[:i]
}

// LoadTypes loads packages for schema extraction (no SSA).
func LoadTypes(dir string, patterns ...string) ([]*packages.Package, error) {
	cfg := &packages.Config{Mode: packages.NeedName | packages.NeedFiles | packages.NeedTypes | packages.NeedImports | packages.NeedDeps | packages.NeedSyntax | packages.NeedTypesInfo, Dir: dir}
	pkgs, err := packages.Load(cfg, patterns...)
	if err != nil {
		return nil, err
	}
	for _, p := range pkgs {
		if len(p.Errors) > 0 {
			return nil, fmt.Errorf("%s: %v", p.PkgPath, p.Errors[0])
		}
	}
	return pkgs, nil
}
