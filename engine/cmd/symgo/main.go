// symgo: solver-based checks of cosmos-proto properties (go/ssa -> SMT-LIB2 -> z3/cvc5).
package main

import (
	"encoding/json"
	"flag"
	"fmt"
	"os"
	"path/filepath"
	"regexp"
	"runtime"
	"sort"
	"strconv"
	"strings"
	"time"

	"symgo/sym"
)

var repoDir = "/repo" // SYMGO_REPO overrides it for experiments on scratch worktrees only
const repoMod = "github.com/cosmos/cosmos-proto"

var verifDir = "/verif"

func main() {
	if len(os.Args) < 2 {
		usage()
	}
	if d := os.Getenv("VERIF_DIR"); d != "" {
		verifDir = d
	}
	if d := os.Getenv("SYMGO_REPO"); d != "" {
		repoDir = d
	}
	os.Setenv("GOFLAGS", "-mod=mod")
	os.Setenv("GOPROXY", "off")
	os.Setenv("GOSUMDB", "off")
	os.Setenv("GOTOOLCHAIN", "local")
	switch os.Args[1] {
	case "check":
		if len(os.Args) < 4 {
			usage()
		}
		os.Exit(runCheck(os.Args[2], os.Args[3], os.Args[4:]))
	case "replay":
		if len(os.Args) < 3 {
			usage()
		}
		os.Exit(runReplayCmd(os.Args[2]))
	case "selftest":
		os.Exit(runSelftest())
	default:
		usage()
	}
}

func usage() {
	fmt.Fprintln(os.Stderr, "usage: symgo check <ID> <quick|thorough> [-re regex] [-debug] | symgo replay <file> | symgo selftest")
	os.Exit(2)
}

// Unit is one package with injected harness sources.
type Unit struct {
	PkgDir  string            // directory (absolute)
	PkgName string            // Go package name
	Files   map[string]string // file base name -> content (already with package clause)
}

// Stage is one load+run of harnesses; a Plan without explicit stages has exactly one.
type Stage struct {
	Name     string
	LoadDir  string
	Patterns []string
	Units    []*Unit
	Regex    string
	ModFiles map[string]string // for harnesses living in a scratch module: its files (for later replay)
	ModDir   string
	InitPkgs func(string) bool
}

// Plan describes what a check runs.
type Plan struct {
	LoadDir   string
	Patterns  []string
	Units     []*Unit
	Regex     string
	Cfg       sym.Config
	TimeoutMs int
	Solver    string
	Bounds    map[string]string
	Assume    []string
	Stubs     []string
	Cleanup   func()
	Extra     map[string]interface{}
	// PipelineFailures are non-solver failures (e.g. generator errors) keyed for known-finding matching.
	PipelineFailures []*sym.Violation
	Programs         int
	Stages           []*Stage
}

type KnownFinding struct {
	Property string `json:"property"`
	Key      string `json:"key"` // regexp matched against "<harness>/<assert>"
	Status   string `json:"status"`
	Commit   string `json:"commit,omitempty"`
	What     string `json:"what"`
}

func loadKnown() []KnownFinding {
	var k struct {
		Findings []KnownFinding `json:"findings"`
	}
	b, err := os.ReadFile(filepath.Join(verifDir, "known_findings.json"))
	if err != nil {
		return nil
	}
	if err := json.Unmarshal(b, &k); err != nil {
		fmt.Fprintln(os.Stderr, "known_findings.json:", err)
	}
	return k.Findings
}

func overlayFor(units []*Unit) map[string][]byte {
	ov := map[string][]byte{}
	for _, u := range units {
		for name, content := range u.Files {
			ov[filepath.Join(u.PkgDir, name)] = []byte(content)
		}
	}
	return ov
}

func readHarnessFile(name string) string {
	b, err := os.ReadFile(filepath.Join(verifDir, "harness", name))
	if err != nil {
		panic(err)
	}
	return string(b)
}

func prelude(pkg string) string {
	return strings.Replace(readHarnessFile("prelude.go.txt"), "PKGNAME", pkg, 1)
}
func preludeTest(pkg string) string {
	return strings.Replace(readHarnessFile("prelude_test.go.txt"), "PKGNAME", pkg, 1)
}

func tierOf(s string) string {
	if s == "thorough" {
		return "thorough"
	}
	return "quick"
}

func seed() int {
	n, _ := strconv.Atoi(os.Getenv("VERIF_SEED"))
	return n
}

func runCheck(id, tier string, rest []string) int {
	fs := flag.NewFlagSet("check", flag.ExitOnError)
	reFlag := fs.String("re", "", "only harnesses matching this regexp")
	debug := fs.Bool("debug", false, "debug output")
	trace := fs.Bool("trace", false, "trace instructions")
	workers := fs.Int("workers", runtime.NumCPU(), "parallel workers")
	noReplay := fs.Bool("noreplay", false, "skip native replay of counterexamples")
	fs.Parse(rest)
	tier = tierOf(tier)
	start := time.Now()
	builder, ok := specs[id]
	if !ok {
		fmt.Fprintf(os.Stderr, "no check for %s\n", id)
		return 2
	}
	plan, err := builder(tier)
	if plan != nil && plan.Cleanup != nil {
		defer plan.Cleanup()
	}
	if err != nil {
		fmt.Printf("INCONCLUSIVE property=%s setup failed: %v\n", id, err)
		writeEvidence(id, tier, start, plan, nil, nil, nil, []string{"setup: " + err.Error()})
		return 2
	}
	plan.Cfg.Debug = *debug
	plan.Cfg.Trace = *trace
	plan.Cfg.RepoPrefix = repoMod
	if plan.Cfg.MaxHarnessSeconds == 0 {
		plan.Cfg.MaxHarnessSeconds = 1500
		if tier == "thorough" {
			plan.Cfg.MaxHarnessSeconds = 4 * 3600
		}
	}
	if tier == "thorough" {
		plan.Cfg.CrossCmd = "z3" // 4.8.12 re-decides what 5.1 proved in one-shot mode
	}
	if c := os.Getenv("SYMGO_CROSS"); c != "" {
		plan.Cfg.CrossCmd = c
	}
	if plan.Solver == "" {
		plan.Solver = "z3"
	}
	if sv := os.Getenv("SYMGO_SOLVER"); sv != "" {
		plan.Solver = sv
	}
	if plan.TimeoutMs == 0 {
		plan.TimeoutMs = 60000
		if tier == "thorough" {
			plan.TimeoutMs = 300000
		}
	}
	stages := plan.Stages
	if len(stages) == 0 {
		stages = []*Stage{{Name: "main", LoadDir: plan.LoadDir, Patterns: plan.Patterns, Units: plan.Units, Regex: plan.Regex}}
	}
	var results []*sym.HarnessResult
	harnessPkg := map[string]*Unit{}
	harnessStage := map[string]*Stage{}
	totalFns := 0
	for _, st := range stages {
		loadStart := time.Now()
		l, err := sym.Load(st.LoadDir, st.Patterns, overlayFor(st.Units), os.Environ())
		if err != nil {
			fmt.Printf("INCONCLUSIVE property=%s stage %s load failed: %v\n", id, st.Name, trunc(err.Error(), 600))
			writeEvidence(id, tier, start, plan, nil, nil, nil, []string{"load: " + err.Error()})
			return 2
		}
		loadDur := time.Since(loadStart)
		reStr := st.Regex
		if *reFlag != "" {
			reStr = *reFlag
		}
		fns := l.Harnesses(regexp.MustCompile(reStr))
		if len(fns) == 0 {
			if *reFlag != "" {
				continue
			}
			fmt.Printf("INCONCLUSIVE property=%s stage %s: no harness matched %q\n", id, st.Name, reStr)
			writeEvidence(id, tier, start, plan, nil, nil, nil, []string{"no harness matched"})
			return 2
		}
		totalFns += len(fns)
		fmt.Fprintf(os.Stderr, "[%s %s %s] loaded in %.1fs, %d harnesses, %d workers\n", id, tier, st.Name, loadDur.Seconds(), len(fns), *workers)
		cfg := plan.Cfg
		cfg.InitFuncs = st.InitPkgs
		res, err := sym.RunAll(l, fns, *workers, plan.Solver, plan.TimeoutMs, cfg, sym.Hooks{PackageInit: packageInitHook}, func(r *sym.HarnessResult) {
			stt := "ok"
			if len(r.Violations) > 0 {
				stt = fmt.Sprintf("VIOLATED(%d)", len(r.Violations))
			} else if len(r.Inconclusive) > 0 {
				stt = "INCONCLUSIVE"
			}
			fmt.Fprintf(os.Stderr, "  %-60s %-12s paths=%d obl=%d/%d q=%d t=%.1fs\n", r.Name, stt, r.Paths, r.Discharged, r.Obligations, r.Queries, r.SolverTime)
			if *debug || stt == "INCONCLUSIVE" {
				for _, s := range r.Inconclusive {
					fmt.Fprintf(os.Stderr, "      inconclusive: %s\n", s)
				}
			}
		})
		if err != nil {
			fmt.Printf("INCONCLUSIVE property=%s %v\n", id, err)
			return 2
		}
		for i, f := range fns {
			qn := f.Name()
			if f.Pkg != nil {
				qn = f.Pkg.Pkg.Path() + "." + f.Name()
			}
			if res[i] != nil {
				res[i].Qualified = qn
				for _, v := range res[i].Violations {
					v.Qualified = qn
				}
				if w := res[i].NonTermWitness; w != nil {
					w.Qualified = qn
				}
			}
			for _, u := range st.Units {
				if f.Pkg != nil && pkgDirOf(l, f.Pkg.Pkg.Path()) == u.PkgDir {
					harnessPkg[qn] = u
					harnessStage[qn] = st
				}
			}
		}
		results = append(results, res...)
	}
	if totalFns == 0 && len(plan.PipelineFailures) == 0 {
		fmt.Printf("INCONCLUSIVE property=%s no harness matched\n", id)
		writeEvidence(id, tier, start, plan, nil, nil, nil, []string{"no harness matched"})
		return 2
	}
	known := loadKnown()
	var inconclusive []string
	var confirmed, knownHits []*sym.Violation
	var knownLines []string
	exit := 0
	os.MkdirAll(filepath.Join(verifDir, "evidence", "replays"), 0o755)
	seenKey := map[string]bool{}
	knownCount := map[string]int{}
	all := append([]*sym.Violation{}, plan.PipelineFailures...)
	for _, r := range results {
		if r == nil {
			continue
		}
		for _, s := range r.Inconclusive {
			inconclusive = append(inconclusive, r.Name+": "+s)
		}
		// vacuity: a harness must reach at least one assertion on a feasible path
		if len(r.Reached) == 0 && len(r.Violations) == 0 && len(r.Inconclusive) == 0 {
			inconclusive = append(inconclusive, r.Name+": vacuous (no assertion reached on any feasible path)")
		}
		all = append(all, r.Violations...)
		if r.NonTermWitness != nil {
			all = append(all, r.NonTermWitness)
		}
	}
	for _, v := range all {
		key := v.Harness + "/" + v.AssertID
		if seenKey[key] {
			continue
		}
		seenKey[key] = true
		replayPath := filepath.Join(verifDir, "evidence", "replays", fmt.Sprintf("%s-%s-%s.json", id, sanitize(shortQual(v)), sanitize(v.AssertID)))
		u := harnessPkg[v.Qualified]
		rep := &ReplayFile{Property: id, Harness: v.Harness, Assert: v.AssertID, Kind: v.Kind, Detail: v.Detail, Model: v.Model}
		if u != nil {
			rep.PkgDir = u.PkgDir
			rep.PkgName = u.PkgName
			rep.Files = u.Files
			if st := harnessStage[v.Qualified]; st != nil && st.ModFiles != nil {
				rep.ModFiles = st.ModFiles
				rep.ModDir = st.ModDir
			}
		}
		outcome := "not-replayed"
		if v.Kind == "pipeline" {
			outcome = "pipeline"
		} else if v.Kind == "unwind" {
			// a path ran past the loop bound: that is only a hang if the real code does not
			// come back on these inputs (they are a few dozen bytes; 20 s is generous)
			outcome = "not-replayed"
			if u != nil && !*noReplay {
				// -timeout bounds the test's own run time, not the build before it
				raw := nativeRunArgs(rep, preludeTest(rep.PkgName), "^TestVHReplay$", "-timeout=20s")
				if strings.Contains(raw, "test timed out after 20s") {
					outcome = "timeout"
				} else {
					outcome = classifyReplay(raw)
				}
			}
			rep.NativeOutcome = outcome
			if outcome != "timeout" {
				// terminated natively: the unwind entry already recorded for the harness stands
				continue
			}
			outcome = "violated terminates (no result within 20 s natively)"
		} else if u != nil && !*noReplay {
			outcome = nativeReplay(rep)
			for try := 0; try < 5 && outcome == "ok"; try++ {
				// the executor explores every map iteration order, a native run draws one at
				// random: a counterexample that needs a particular order shows up within a few
				// runs (any native failure is a real one, so repeating cannot confirm falsely)
				outcome = nativeReplay(rep)
			}
			if strings.Contains(outcome, "symbolic only") {
				// the harness drives code that Go source cannot reach (an anonymous closure):
				// confirm against the real program instead
				outcome = confirmSpecial(id, v)
			}
			if outcome == "ok" && strings.Contains(v.Detail, "write to pre-existing object") {
				// a write that stores the value already there is invisible to the value
				// comparison of the native write-set stand-in: ask the race detector
				if rc := nativeRaceConfirm(rep); rc != "" {
					outcome = rc
				}
			}
		}
		rep.NativeOutcome = outcome
		writeJSON(replayPath, rep)
		reproduced := v.Kind == "pipeline" || strings.HasPrefix(outcome, "violated") || strings.HasPrefix(outcome, "panic") || *noReplay
		if !reproduced {
			inconclusive = append(inconclusive, fmt.Sprintf("%s: counterexample did not reproduce natively (%s); model kept at %s", key, outcome, replayPath))
			continue
		}
		if kf := matchKnown(known, id, key); kf != nil {
			knownHits = append(knownHits, v)
			knownCount[kf.Key]++
			if knownCount[kf.Key] == 1 {
				knownLines = append(knownLines, fmt.Sprintf("KNOWN-FINDING: property=%s %s [first hit: %s]", id, kf.What, key))
			}
			continue
		}
		confirmed = append(confirmed, v)
		fmt.Printf("VIOLATION property=%s replay=%s\n", id, replayPath)
		fmt.Printf("  harness=%s assert=%s native=%q detail=%s\n", v.Harness, v.AssertID, outcome, trunc(v.Detail, 300))
		exit = 1
	}
	sort.Strings(knownLines)
	for _, l := range knownLines {
		fmt.Println(l)
	}
	if exit == 0 && len(inconclusive) > 0 {
		exit = 2
		for i, s := range inconclusive {
			if i < 15 {
				fmt.Printf("INCONCLUSIVE property=%s %s\n", id, trunc(s, 400))
			}
		}
	}
	writeEvidence(id, tier, start, plan, results, confirmed, knownHits, inconclusive)
	if exit == 0 {
		fmt.Printf("OK property=%s tier=%s harnesses=%d wall=%.1fs\n", id, tier, totalFns, time.Since(start).Seconds())
	}
	return exit
}

func pkgDirOf(l *sym.Loaded, path string) string {
	var dir string
	var visit func(ps []*pkgT)
	_ = visit
	for _, p := range allPkgs(l) {
		if p.PkgPath == path && len(p.GoFiles) > 0 {
			dir = filepath.Dir(p.GoFiles[0])
		}
	}
	return dir
}

func sanitize(s string) string {
	return regexp.MustCompile(`[^A-Za-z0-9_.-]`).ReplaceAllString(s, "_")
}

func trunc(s string, n int) string {
	if len(s) > n {
		return s[:n] + "..."
	}
	return s
}

var subPropRe = regexp.MustCompile(`^VH_(C\d\d)_`)

func shortQual(v *sym.Violation) string {
	q := v.Qualified
	if i := strings.LastIndex(q, "/"); i >= 0 {
		q = q[i+1:]
	}
	if q == "" {
		q = v.Harness
	}
	return q
}

func matchKnown(known []KnownFinding, id, key string) *KnownFinding {
	sub := ""
	if id == "C12" {
		// generated-code obligations re-run on fresh generator output inherit the findings of their own property
		if m := subPropRe.FindStringSubmatch(key); m != nil {
			sub = m[1]
		}
	}
	for i := range known {
		k := &known[i]
		if (k.Property != id && (sub == "" || k.Property != sub)) || k.Status != "known" {
			continue
		}
		if ok, _ := regexp.MatchString("^(?:"+k.Key+")$", key); ok {
			return k
		}
	}
	return nil
}

func writeJSON(path string, v interface{}) {
	b, _ := json.MarshalIndent(v, "", " ")
	os.WriteFile(path, b, 0o644)
}
