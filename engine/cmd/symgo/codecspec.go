package main

import (
	"fmt"
	"path/filepath"
	"strings"

	"symgo/sym"
)

type pkgSel struct {
	Pattern string
	// Msgs restricts harness generation to these messages (nil = all)
	Msgs []string
}

var checkedInPkgs = []string{"./testpb", "./internal/testprotos/test3"}

func newGen(s *Schema, tier string) *gen {
	g := &gen{s: s, strLen: 1 << 21, keyLen: 2, listN: 1, mapN: 1, pick: 2, seed: seed(), smallPayload: 2, tier: tier}
	if tier == "thorough" {
		g.pick = 4
		g.smallPayload = 5
		g.listN, g.mapN = 2, 2
	}
	return g
}

// codecUnits builds harness units for the codec-style properties over the checked-in packages.
func codecUnits(props []string, tier string, fileTag string, srcFn func(g *gen, msgs []*Message) string) ([]*Unit, []string, error) {
	return codecUnitsAt(repoDir, checkedInPkgs, tier, fileTag, srcFn)
}

func codecUnitsAt(dir string, pkgPatterns []string, tier string, fileTag string, srcFn func(g *gen, msgs []*Message) string) ([]*Unit, []string, error) {
	pkgs, err := LoadTypes(dir, pkgPatterns...)
	if err != nil {
		return nil, nil, err
	}
	var units []*Unit
	var patterns []string
	for _, p := range pkgs {
		s, err := ExtractSchema(p)
		if err != nil {
			return nil, nil, err
		}
		if len(s.Msgs) == 0 {
			continue
		}
		g := newGen(s, tier)
		msgs := selectMsgs(s, tier)
		u := &Unit{PkgDir: s.Dir, PkgName: s.PkgName, Files: map[string]string{}}
		u.Files["zz_vh_prelude.go"] = prelude(s.PkgName)
		u.Files["zz_vh_"+fileTag+".go"] = srcFn(g, msgs)
		u.finish()
		units = append(units, u)
		rel, _ := filepath.Rel(dir, s.Dir)
		patterns = append(patterns, "./"+rel)
	}
	return units, patterns, nil
}

// selectMsgs: quick = every message of small packages, and for big messages a seed-rotated
// slice of fields is chosen by the field filter; thorough = everything.
func selectMsgs(s *Schema, tier string) []*Message {
	return s.Msgs
}

// fieldFilterFor limits the number of per-field harnesses of very large messages in the quick tier.
func fieldFilterFor(tier string) func(m *Message, f *Field) bool {
	if tier == "thorough" {
		return nil
	}
	sd := seed()
	return func(m *Message, f *Field) bool {
		if len(m.All) <= 30 {
			return true
		}
		// big message (TestAllTypes): one representative per (kind, cardinality) class plus a
		// seed-rotated eighth of the rest
		idx := 0
		for i, x := range m.All {
			if x == f {
				idx = i
			}
		}
		first := true
		for _, x := range m.All[:idx] {
			if x.Kind == f.Kind && x.Card == f.Card && keyKind(x) == keyKind(f) {
				first = false
			}
		}
		return first || (idx+sd)%8 == 0
	}
}

func keyKind(f *Field) string {
	if f.Card == "map" {
		return f.Key.Kind + ":" + f.Val.Kind
	}
	return ""
}

func codecBounds(g *gen) map[string]string {
	return map[string]string{
		"active field":     "one field per harness over its full domain (all 8/32/64-bit values, NaN payloads and -0.0 as bit patterns)",
		"string/bytes":     fmt.Sprintf("symbolic length 0..%d, symbolic content", 1<<21),
		"repeated":         "0..2 symbolic elements, nil and empty-non-nil containers",
		"maps":             "0..2 entries with pairwise distinct symbolic keys (string keys <= 2 bytes), all iteration orders",
		"nested messages":  "nil / empty / one symbolic active field (a rotating subset of fields) or one unknown record; depth 2",
		"other fields":     "family H1: absent; family H2 (suffix _h2): every other field set to a fixed non-default value",
		"unknown fields":   "one well-formed record (varint/fixed32/fixed64/bytes) with a symbolic number outside the schema",
		"foreign messages": "fields whose message type is not a pulsar type of the same package are nil only",
		"schemas":          "checked-in packages testpb and internal/testprotos/test3 (quick: TestAllTypes fields reduced to one per kind x cardinality class plus a VERIF_SEED-rotated eighth)",
	}
}

var codecStubs = []string{
	"fmt.Errorf/errors.New -> opaque non-nil error",
	"math.Float32bits/Float64bits/frombits -> identity on IEEE bit patterns; math.Signbit -> top bit",
	"sort.Slice/sort.Strings -> insertion sort driving the real comparison (exact for n <= 12)",
	"protoimpl.X.MessageStateOf/StoreMessageInfo/LoadMessageInfo -> no-op (state is never read by the code under test)",
	"proto.checkInitialized -> nil (proto3 has no required fields)",
}

func init() {
	mk := func(prop string) func(tier string) (*Plan, error) {
		return func(tier string) (*Plan, error) {
			var gg *gen
			units, patterns, err := codecUnits([]string{prop}, tier, "codec", func(g *gen, msgs []*Message) string {
				gg = g
				return g.CodecSource([]string{prop}, msgs, true, fieldFilterFor(tier))
			})
			if err != nil {
				return nil, err
			}
			if os := strings.TrimSpace(getenv("SYMGO_DUMP")); os != "" {
				for _, u := range units {
					for n, c := range u.Files {
						writeFile(filepath.Join(os, u.PkgName+"_"+n), c)
					}
				}
			}
			return &Plan{
				LoadDir:  repoDir,
				Patterns: patterns,
				Units:    units,
				Regex:    "^VH_" + prop + "_",
				Cfg:      sym.Config{MaxLoop: 40, MaxPaths: 6000},
				Bounds:   codecBounds(gg),
				Stubs:    codecStubs,
			}, nil
		}
	}
	mkDec := func(prop string) func(tier string) (*Plan, error) {
		return func(tier string) (*Plan, error) {
			var gg *gen
			units, patterns, err := codecUnits([]string{prop}, tier, "decode", func(g *gen, msgs []*Message) string {
				gg = g
				return g.DecodeSource([]string{prop}, msgs, true, fieldFilterFor(tier))
			})
			if err != nil {
				return nil, err
			}
			if os := strings.TrimSpace(getenv("SYMGO_DUMP")); os != "" {
				for _, u := range units {
					for n, c := range u.Files {
						writeFile(filepath.Join(os, u.PkgName+"_"+n), c)
					}
				}
			}
			b := codecBounds(gg)
			b["decode step"] = "one well-typed record (minimal or one-group-padded varints and tags; packed runs of 0..2 elements; map entries with key/value present, missing or swapped; nested payload = one record of a scalar field) decoded by the real unmarshal closure into an arbitrary pre-state of the target field (family H1) or into a message with every other field populated (H2); expected post-state computed on a deep clone"
			b["composition"] = "decoding a concatenation = iterating the step: the record loop carries only (message, index) - argued from the SSA, not solver-decided"
			return &Plan{
				LoadDir:  repoDir,
				Patterns: patterns,
				Units:    units,
				Regex:    "^VH_" + prop + "_",
				Cfg:      sym.Config{MaxLoop: 40, MaxPaths: 8000},
				Bounds:   b,
				Stubs:    codecStubs,
			}, nil
		}
	}
	specs["C06"] = func(tier string) (*Plan, error) {
		var gg *gen
		anyN := 4
		if tier == "thorough" {
			anyN = 5
		}
		units, patterns, err := codecUnits([]string{"C06"}, tier, "total", func(g *gen, msgs []*Message) string {
			gg = g
			return g.TotalSource(msgs, fieldFilterFor(tier), anyN)
		})
		if err != nil {
			return nil, err
		}
		if os := strings.TrimSpace(getenv("SYMGO_DUMP")); os != "" {
			for _, u := range units {
				for n, c := range u.Files {
					writeFile(filepath.Join(os, u.PkgName+"_"+n), c)
				}
			}
		}
		_ = gg
		return &Plan{
			LoadDir:  repoDir,
			Patterns: patterns,
			Units:    units,
			Regex:    "^VH_C06_",
			Cfg:      sym.Config{MaxLoop: 40, MaxPaths: map[string]int{"quick": 12000, "thorough": 200000}[tierOf(tier)]},
			Bounds: map[string]string{
				"record step":   "per field: tag with every wire type 0..7 followed by arbitrary bytes such that the first record fails or spans the whole buffer (varint <= 11 bytes, fixed <= 8/4, length-delimited with an arbitrary 64-bit declared length and a payload of symbolic length <= 2^21 for string/bytes/message fields, <= 2 bytes for packed and map payloads in the quick tier, <= 5 (packed) and <= 4 (map entries) in the thorough tier), decoded into an arbitrary pre-state of that field; arbitrary-length inputs follow by induction over the record loop (argued, not solver-decided)",
				"arbitrary":     fmt.Sprintf("whole closure on fully arbitrary buffers of 0..%d bytes (unknown numbers, non-minimal and over-long tags)", anyN),
				"nested":        "nested message decoding is replaced by an assume-guarantee stub (nil or error); each message type has its own harnesses",
				"recursion":     "proto.UnmarshalOptions{RecursionLimit: 1} through the real protobuf-go dispatch on a record for a message-typed field",
				"allocation":    "sum of make/append sizes <= 8*len(input)+64",
				"post-state":    "Size and Marshal of every accepted message do not panic and agree",
				"schemas":       "checked-in packages testpb and internal/testprotos/test3",
			},
			Stubs: append(append([]string{}, codecStubs...), "proto.UnmarshalOptions.Unmarshal for nested messages -> nil or opaque error (assume-guarantee)"),
		}, nil
	}
	mkMisc := func(prop string, extra map[string]string) func(tier string) (*Plan, error) {
		return func(tier string) (*Plan, error) {
			var gg *gen
			units, patterns, err := codecUnits([]string{prop}, tier, "misc", func(g *gen, msgs []*Message) string {
				gg = g
				if prop == "C07" && g.mapN > 1 {
					// thorough C07: one map entry (as in quick) with full-domain keys and values; two
					// full-domain 64-bit entries exhausted the 12000-path budget (measured), and
					// aliasing is a per-entry fact
					g.mapN = 1
				}
				// thorough C05: two entries with keys over their FULL domain (quick: single-length key
				// window); three full-domain entries exhausted a 12000-path budget (measured)
				return g.MiscSource(prop, msgs, fieldFilterFor(tier))
			})
			if err != nil {
				return nil, err
			}
			if os := strings.TrimSpace(getenv("SYMGO_DUMP")); os != "" {
				for _, u := range units {
					for n, c := range u.Files {
						writeFile(filepath.Join(os, u.PkgName+"_"+n), c)
					}
				}
			}
			b := codecBounds(gg)
			for k, v := range extra {
				b[k] = v
			}
			return &Plan{
				LoadDir:  repoDir,
				Patterns: patterns,
				Units:    units,
				Regex:    "^VH_" + prop + "_",
				Cfg:      sym.Config{MaxLoop: 40, MaxPaths: 12000},
				Bounds:   b,
				Stubs:    codecStubs,
			}, nil
		}
	}
	specs["C05"] = mkMisc("C05", map[string]string{
		"determinism": "every map field at top level and one level down inside singular / repeated / oneof / map-value messages; 0..2 entries with symbolic distinct keys (quick: integer keys in a one-byte window; thorough: full key domain); two marshal runs and a clone with reversed insertion order and flipped nil/empty containers, each under every map iteration order",
	})
	specs["C07"] = mkMisc("C07", map[string]string{
		"aliasing":    "object identity on the executor heap: no []byte reachable from the decoded message (bytes fields in singular/repeated/oneof/map positions, unknown fields, nested) is backed by the input array; the input array term is untouched; decoding once and twice (Merge/duplicate records)",
		"disturbance": "write-set of Size+Marshal restricted to objects allocated during the call; output buffer not backed by any message array; strings cannot alias in this model (Go string conversion copies; unsafe is rejected as unsupported)",
	})
	specs["C08"] = func(tier string) (*Plan, error) {
		units, patterns, err := codecUnits([]string{"C08"}, tier, "reflect", func(g *gen, msgs []*Message) string {
			return g.ReflectSource(msgs, fieldFilterFor(tier))
		})
		if err != nil {
			return nil, err
		}
		if os := strings.TrimSpace(getenv("SYMGO_DUMP")); os != "" {
			for _, u := range units {
				for n, c := range u.Files {
					writeFile(filepath.Join(os, u.PkgName+"_"+n), c)
				}
			}
		}
		return &Plan{
			LoadDir:  repoDir,
			Patterns: patterns,
			Units:    units,
			Regex:    "^VH_C08_",
			Cfg:      sym.Config{MaxLoop: 40, MaxPaths: 12000},
			Bounds: map[string]string{
				"history":    "one reflection operation from an arbitrary valid pre-state of the target field (inductive step: covers operation histories of any length on that field); every other field populated with fixed values and compared afterwards (frame)",
				"operations": "Has, Get, getter, Set, Clear, Mutable, NewField, Range, WhichOneof, GetUnknown/SetUnknown; List: Len/Get/Set/Append/Truncate/AppendMutable/NewElement/IsValid; Map: Len/Has/Get/Set/Clear/Range/Mutable/IsValid",
				"values":     "scalars over their full domain; strings/bytes <= 4 bytes; lists 0..2 elements; maps 0..2 entries with symbolic keys",
				"oneofs":     "pre-state: unset, this member, or any sibling member",
				"outside":    "sequences that retain a view across a later Set/Clear of the same field; wrong-typed values",
				"schemas":    "checked-in packages testpb and internal/testprotos/test3",
			},
			Stubs: append(append([]string{}, codecStubs...),
				"protoreflect.Value/MapKey -> tagged union with the documented panics on kind mismatch (real type is unsafe-pointer packing)",
				"protoreflect descriptors -> opaque objects computed natively from the package's raw descriptor (file_*_rawDesc)"),
		}, nil
	}
	mkAux := func(prop string, bounds map[string]string) func(tier string) (*Plan, error) {
		return func(tier string) (*Plan, error) {
			units, patterns, err := codecUnits([]string{prop}, tier, "reflaux", func(g *gen, msgs []*Message) string {
				return g.ReflectAuxSource(prop, msgs, fieldFilterFor(tier))
			})
			if err != nil {
				return nil, err
			}
			if os := strings.TrimSpace(getenv("SYMGO_DUMP")); os != "" {
				for _, u := range units {
					for n, c := range u.Files {
						writeFile(filepath.Join(os, u.PkgName+"_"+n), c)
					}
				}
			}
			bounds["schemas"] = "checked-in packages testpb and internal/testprotos/test3"
			return &Plan{
				LoadDir:  repoDir,
				Patterns: patterns,
				Units:    units,
				Regex:    "^VH_" + prop + "_",
				Cfg:      sym.Config{MaxLoop: 40, MaxPaths: 12000},
				Bounds:   bounds,
				Stubs: append(append([]string{}, codecStubs...),
					"protoreflect.Value/MapKey -> tagged union with the documented panics on kind mismatch",
					"protoreflect descriptors -> opaque objects computed natively from the package's raw descriptor"),
			}, nil
		}
	}
	specs["C09"] = mkAux("C09", map[string]string{
		"receivers": "nil *M, Type().Zero(), Get(unpopulated message field).Message(), nil list elements, nil map values",
		"reads":     "Has, Get (default / invalid empty views), Range, WhichOneof, IsValid, Size, Marshal, getters on nil receivers: finite (types x fields x accessors), decided by exhaustive path exploration",
		"stores":    "Set (scalars) and Mutable (composites) on a nil message must panic",
		"outside":   "proto.Equal/Clone/Merge, protojson/prototext on such values (library code, see C10)",
	})
	specs["C11"] = mkAux("C11", map[string]string{
		"reduction": "a data race needs a write: the write-set of every read-only operation (Has, Get, views' Len/Get/Has/Range/IsValid, Range, WhichOneof, IsValid, Descriptor, Type, GetUnknown, Interface, getters, Size, Marshal in both modes) restricted to memory that existed before the call is empty on every path, hence any interleaving of readers is race-free and sees sequential results",
		"states":    "every other field populated; target field over its builder domain (lists/maps 0..2, nested message with one symbolic field)",
		"outside":   "library readers (Equal, Clone, JSON) beyond the methods they call; embedded well-known types; the Go memory model is assumed",
	})
	specs["C19"] = mkAux("C19", map[string]string{
		"claimed": "getters == reflection Get on every field state (incl. oneof siblings, nil receivers in C09), Reset empties the message, Type/New/Zero/Interface yield the message's own Go type, Descriptor() is the package's md_ variable, enum Number() is the identity",
		"outside": "the registered FileDescriptor equals the request schema, registry lookups, String() round-trip, enum String/Descriptor: these run through protoimpl.TypeBuilder / global registries at package init (reflection+unsafe), not encodable",
	})
	specs["C03"] = mkDec("C03")
	specs["C14"] = mkDec("C14")
	specs["C01"] = mk("C01")
	specs["C02"] = mk("C02")
	specs["C04"] = mk("C04")
}
