package main

import (
	"fmt"
	"path/filepath"
	"strings"

	"symgo/sym"
)

type pkgSel struct {
	Pattern string
	// Msgs restricts harness generation to these messages (nil = all)
	Msgs []string
}

var checkedInPkgs = []string{"./testpb", "./internal/testprotos/test3"}

func newGen(s *Schema, tier string) *gen {
	g := &gen{s: s, strLen: 1 << 21, keyLen: 2, listN: 2, mapN: 2, pick: 3, seed: seed()}
	if tier == "thorough" {
		g.pick = 5
	}
	return g
}

// codecUnits builds harness units for the codec-style properties over the checked-in packages.
func codecUnits(props []string, tier string, fileTag string, srcFn func(g *gen, msgs []*Message) string) ([]*Unit, []string, error) {
	pkgs, err := LoadTypes(repoDir, checkedInPkgs...)
	if err != nil {
		return nil, nil, err
	}
	var units []*Unit
	var patterns []string
	for _, p := range pkgs {
		s, err := ExtractSchema(p)
		if err != nil {
			return nil, nil, err
		}
		if len(s.Msgs) == 0 {
			continue
		}
		g := newGen(s, tier)
		msgs := selectMsgs(s, tier)
		u := &Unit{PkgDir: s.Dir, PkgName: s.PkgName, Files: map[string]string{}}
		u.Files["zz_vh_prelude.go"] = prelude(s.PkgName)
		u.Files["zz_vh_"+fileTag+".go"] = srcFn(g, msgs)
		u.finish()
		units = append(units, u)
		rel, _ := filepath.Rel(repoDir, s.Dir)
		patterns = append(patterns, "./"+rel)
	}
	return units, patterns, nil
}

// selectMsgs: quick = every message of small packages, and for big messages a seed-rotated
// slice of fields is chosen by the field filter; thorough = everything.
func selectMsgs(s *Schema, tier string) []*Message {
	return s.Msgs
}

// fieldFilterFor limits the number of per-field harnesses of very large messages in the quick tier.
func fieldFilterFor(tier string) func(m *Message, f *Field) bool {
	if tier == "thorough" {
		return nil
	}
	sd := seed()
	return func(m *Message, f *Field) bool {
		if len(m.All) <= 30 {
			return true
		}
		// big message (TestAllTypes): one representative per (kind, cardinality) class plus a
		// seed-rotated eighth of the rest
		idx := 0
		for i, x := range m.All {
			if x == f {
				idx = i
			}
		}
		first := true
		for _, x := range m.All[:idx] {
			if x.Kind == f.Kind && x.Card == f.Card && keyKind(x) == keyKind(f) {
				first = false
			}
		}
		return first || (idx+sd)%8 == 0
	}
}

func keyKind(f *Field) string {
	if f.Card == "map" {
		return f.Key.Kind + ":" + f.Val.Kind
	}
	return ""
}

func codecBounds(g *gen) map[string]string {
	return map[string]string{
		"active field":     "one field per harness over its full domain (all 8/32/64-bit values, NaN payloads and -0.0 as bit patterns)",
		"string/bytes":     fmt.Sprintf("symbolic length 0..%d, symbolic content", 1<<21),
		"repeated":         "0..2 symbolic elements, nil and empty-non-nil containers",
		"maps":             "0..2 entries with pairwise distinct symbolic keys (string keys <= 2 bytes), all iteration orders",
		"nested messages":  "nil / empty / one symbolic active field (a rotating subset of fields) or one unknown record; depth 2",
		"other fields":     "family H1: absent; family H2 (suffix _h2): every other field set to a fixed non-default value",
		"unknown fields":   "one well-formed record (varint/fixed32/fixed64/bytes) with a symbolic number outside the schema",
		"foreign messages": "fields whose message type is not a pulsar type of the same package are nil only",
		"schemas":          "checked-in packages testpb and internal/testprotos/test3 (quick: TestAllTypes fields reduced to one per kind x cardinality class plus a VERIF_SEED-rotated eighth)",
	}
}

var codecStubs = []string{
	"fmt.Errorf/errors.New -> opaque non-nil error",
	"math.Float32bits/Float64bits/frombits -> identity on IEEE bit patterns; math.Signbit -> top bit",
	"sort.Slice/sort.Strings -> insertion sort driving the real comparison (exact for n <= 12)",
	"protoimpl.X.MessageStateOf/StoreMessageInfo/LoadMessageInfo -> no-op (state is never read by the code under test)",
	"proto.checkInitialized -> nil (proto3 has no required fields)",
}

func init() {
	mk := func(prop string) func(tier string) (*Plan, error) {
		return func(tier string) (*Plan, error) {
			var gg *gen
			units, patterns, err := codecUnits([]string{prop}, tier, "codec", func(g *gen, msgs []*Message) string {
				gg = g
				return g.CodecSource([]string{prop}, msgs, true, fieldFilterFor(tier))
			})
			if err != nil {
				return nil, err
			}
			if os := strings.TrimSpace(getenv("SYMGO_DUMP")); os != "" {
				for _, u := range units {
					for n, c := range u.Files {
						writeFile(filepath.Join(os, u.PkgName+"_"+n), c)
					}
				}
			}
			return &Plan{
				LoadDir:  repoDir,
				Patterns: patterns,
				Units:    units,
				Regex:    "^VH_" + prop + "_",
				Cfg:      sym.Config{MaxLoop: 40, MaxPaths: 6000},
				Bounds:   codecBounds(gg),
				Stubs:    codecStubs,
			}, nil
		}
	}
	specs["C01"] = mk("C01")
	specs["C02"] = mk("C02")
	specs["C04"] = mk("C04")
}
