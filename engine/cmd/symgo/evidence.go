package main

import (
	"fmt"
	"os"
	"path/filepath"
	"sort"
	"time"

	"golang.org/x/tools/go/packages"

	"symgo/sym"
)

type pkgT = packages.Package

func allPkgs(l *sym.Loaded) []*packages.Package {
	var out []*packages.Package
	packages.Visit(l.Pkgs, nil, func(p *packages.Package) { out = append(out, p) })
	return out
}

func writeEvidence(id, tier string, start time.Time, plan *Plan, results []*sym.HarnessResult, confirmed, known []*sym.Violation, inconclusive []string) {
	cov := map[string]interface{}{}
	var obligations, discharged, trivial, paths, pruned, queries, steps, crossChecked, crossUnknown int
	var solverTime float64
	funcs := map[string]bool{}
	var samples []interface{}
	reached := 0
	harnesses := []string{}
	for _, r := range results {
		if r == nil {
			continue
		}
		harnesses = append(harnesses, r.Name)
		obligations += r.Obligations
		discharged += r.Discharged
		trivial += r.Trivial
		paths += r.Paths
		pruned += r.PathsPruned
		queries += r.Queries
		steps += r.Steps
		solverTime += r.SolverTime
		crossChecked += r.CrossChecked
		crossUnknown += r.CrossUnknown
		reached += len(r.Reached)
		for f := range r.Funcs {
			funcs[f] = true
		}
		for _, s := range r.Samples {
			if len(samples) < 12 {
				samples = append(samples, s)
			}
		}
	}
	for _, v := range append(append([]*sym.Violation{}, confirmed...), known...) {
		if len(samples) < 20 {
			samples = append(samples, map[string]interface{}{"counterexample": v.Harness + "/" + v.AssertID, "kind": v.Kind, "detail": trunc(v.Detail, 200), "model": v.Model})
		}
	}
	if len(samples) == 0 {
		samples = append(samples, "no obligation reached")
	}
	var fl []string
	for f := range funcs {
		fl = append(fl, f)
	}
	sort.Strings(fl)
	repoFuncs := []string{}
	for _, f := range fl {
		if containsRepo(f) {
			repoFuncs = append(repoFuncs, f)
		}
	}
	if len(repoFuncs) > 400 {
		repoFuncs = repoFuncs[:400]
	}
	cov["evaluations"] = obligations
	cov["distinct_nontrivial"] = obligations - trivial
	cov["rule"] = "one evaluation = one assertion instance (assert id x feasible path of the symbolic executor) decided by the SMT solver or by term rewriting; non-trivial = the negated assertion was sent to the solver, or it folded to true on a path whose condition contains at least one solver-decided literal (trivial = folded on a path made of harness choices only); instances are distinct because each belongs to a different path condition"
	cov["samples"] = samples
	cov["obligations"] = obligations
	cov["discharged"] = discharged
	cov["states"] = max(paths, 1)
	cov["transitions"] = max(steps, 1)
	cov["traces_validated_against_impl"] = len(confirmed) + len(known)
	cov["paths_explored"] = paths
	cov["paths_pruned_by_assumption"] = pruned
	cov["solver_queries"] = queries
	cov["solver_time_s"] = solverTime
	cov["cross_checked_queries"] = crossChecked
	cov["cross_check_unknown"] = crossUnknown
	cov["solver_disagreements"] = 0 // a disagreement makes the harness INCONCLUSIVE and is listed there
	cov["functions_encoded_total"] = len(fl)
	cov["functions_encoded_repo"] = repoFuncs
	cov["harnesses"] = harnesses
	cov["assert_sites_reached"] = reached
	if inconclusive == nil {
		inconclusive = []string{}
	}
	cov["inconclusive"] = inconclusive
	cov["known_findings_hit"] = len(known)
	cov["exhaustive"] = false
	if plan != nil {
		cov["bounds"] = plan.Bounds
		cov["stubs"] = plan.Stubs
		cov["solver"] = plan.Solver
		if plan.Programs > 0 {
			cov["programs"] = plan.Programs
			cov["disagreements_checked"] = obligations
		}
		for k, v := range plan.Extra {
			cov[k] = v
		}
	}
	level := "model_checking"
	if l, ok := levels[id]; ok {
		level = l
	}
	ev := map[string]interface{}{
		"property_id": id,
		"tier":        tier,
		"seed":        seed(),
		"level":       level,
		"coverage":    cov,
		"wall_s":      time.Since(start).Seconds(),
		"violations":  len(confirmed),
	}
	assume := []string{
		"go/ssa (x/tools v0.29.0) lowers the package faithfully; the symgo executor implements SSA semantics (translator validation: selftest + native replay of every counterexample)",
		"z3 answers are trusted; any solver error/unknown makes the run INCONCLUSIVE, never OK",
		"single goroutine; append reallocation is modelled with capacity == new length",
	}
	if plan != nil {
		assume = append(assume, plan.Assume...)
		for _, s := range plan.Stubs {
			assume = append(assume, "stub: "+s)
		}
	}
	ev["assumptions"] = assume
	os.MkdirAll(filepath.Join(verifDir, "evidence"), 0o755)
	writeJSON(filepath.Join(verifDir, "evidence", fmt.Sprintf("%s.json", id)), ev)
}

func containsRepo(f string) bool {
	for i := 0; i+len(repoMod) <= len(f); i++ {
		if f[i:i+len(repoMod)] == repoMod {
			return true
		}
	}
	return false
}

var levels = map[string]string{}
