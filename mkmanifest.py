#!/usr/bin/env python3
# Regenerates MANIFEST.json from the table below (kept next to the code so they change together).
import json
props=[json.loads(l) for l in open('/verif/properties.jsonl')]
ids=[p['id'] for p in props]
claimed={
 "C15": dict(cat="model_checking", design="§4 C15",
   text="Bounded symbolic model checking of the real runtime.Sov/Soz/EncodeVarint/Skip SSA against the real protowire code: Sov/Soz over all 2^64 values, EncodeVarint over every buffer length up to 2^20, offset and value (frame condition via a Skolem index), Skip panic-freedom/progress on every buffer up to the stated length and agreement with protowire.ConsumeField on every accepted first record. unsat = holds for every value inside the bound; a model is replayed natively before it is reported.",
   note="Trusted: go/ssa lowering, the symgo executor and its term rewriting, z3 4.8.12. Bounds: Skip whole-function runs limited to short buffers (7/6 bytes quick, 9/8 thorough) for group records; non-group agreement for any length <= 2^20. Oracle = real protowire code executed by the same engine.",
   technique="symbolic execution of go/ssa to SMT (QF_UFBV), z3; native replay of models"),
 "C17": dict(cat="model_checking", design="§4 C17",
   text="Bounded symbolic model checking of timepb.Add/AddStd/Compare/overflowPanic over all 64-bit seconds and 32-bit nanos accepted by the real CheckValid, against a multiplication-free normal-form specification and against AddStd executed through the real SSA of time and timestamppb/durationpb.",
   note="Trusted: executor, z3; the specification vhExpected (carry/borrow normal form); stubs: protoimpl.X.NewError/fmt.Sprint opaque. No value bound on inputs; the rewrite x-c*(x sdiv c)=x srem c is applied by the term layer.",
   technique="symbolic execution of go/ssa to SMT bit-vectors, z3; native replay of models"),
}
checks=[]
for i in ids:
    if i in claimed:
        c=claimed[i]
        checks.append({"property_id":i,"quick_cmd":f"/verif/check {i} quick","thorough_cmd":f"/verif/check {i} thorough","evidence_file":f"/verif/evidence/{i}.json","replay_cmd_template":"/verif/check replay {path}","engine":"symgo","level_claimed":{"category":c["cat"],"text":c["text"],"design_ref":c["design"]},"level_note":c["note"],"technique":c["technique"]})
na_reasons={"C10":"proto.Equal/Clone/Merge/CheckInitialized and protojson/prototext are protobuf-go library code driven through internal/filedesc, internal/order, strconv, reflect and unsafe; a hand-written SSA->SMT encoder cannot lower them, and stubbing them leaves nothing of the property (DESIGN §4 C10)."}
na=[{"property_id":i,"reason":na_reasons.get(i,"check not built yet (work in progress)")} for i in ids if i not in claimed]
m={"version":1,"setup_cmd":"/verif/setup.sh","hooks":{"guard":"verif","enable":"no hooks: harnesses are injected with go/packages overlays (symbolic run) and go test -overlay (native replay); nothing under /repo is modified by the machinery","baseline_off_cmd":"cd /repo && GOFLAGS=-mod=mod GOPROXY=off GOSUMDB=off go test -vet=off -count=1 ./...","source_commits":[],"add_only":True},
 "engines":[{"name":"symgo","path":"/verif/engine","serves_properties":[c["property_id"] for c in checks],"kind_free_text":"forking symbolic executor over go/ssa emitting SMT-LIB2 (bit-vectors + uninterpreted functions) to a long-lived z3 process; harnesses are in-package Go functions injected by overlay; counterexamples are replayed natively with go test -overlay"}],
 "checks":checks,"notes":"exit 0 = all obligations discharged (KNOWN-FINDING lines for listed findings); exit 1 = VIOLATION (replayed natively); exit 2 = INCONCLUSIVE (unknown/timeout/unsupported/non-reproducing), never reported as success","not_applicable":na}
json.dump(m,open('/verif/MANIFEST.json','w'),indent=1)
print(len(checks),"checks;",len(na),"not applicable")
