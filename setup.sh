#!/bin/sh
export GOFLAGS=-mod=mod GOPROXY=off GOSUMDB=off GOTOOLCHAIN=local
cd /verif/engine && mkdir -p ../bin && go build -o ../bin/symgo ./cmd/symgo && ../bin/symgo selftest
