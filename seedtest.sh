#!/bin/sh
# usage: seedtest.sh <property> <patch> [extra check args...]; applies the patch to /repo, runs the quick check, reverts
id=$1; patch=$2; shift 2
cd /repo || exit 2
git apply "$patch" || { echo "patch does not apply"; exit 2; }
/verif/bin/symgo check $id quick "$@" > /tmp/seed_$id.log 2>&1
rc=$?
git -C /repo checkout -- . 
grep -E "VIOLATION|KNOWN-FINDING|^OK|INCONCLUSIVE" /tmp/seed_$id.log | cut -c1-250 | head -12
echo "exit=$rc"
