#!/bin/sh
# exploratory thorough runs: evidence and replays go to /tmp/thv (the registered evidence is the quick run's)
vd=/tmp/thv; mkdir -p $vd /tmp/runth; rm -f $vd/harness; ln -s /verif/harness $vd/harness; cp /verif/known_findings.json $vd/
ids="$@"
[ -z "$ids" ] && ids="C15 C17 C16 C18 C13 C19 C11 C09 C08 C05 C14 C06 C07 C03 C02 C01 C04 C12"
for p in $ids; do
  s=$(date +%s)
  VERIF_DIR=$vd /verif/bin/symgo check $p thorough > /tmp/runth/$p.log 2>&1
  rc=$?
  e=$(date +%s)
  echo "$p rc=$rc wall=$((e-s))s" >> /tmp/runth/summary.txt
done
