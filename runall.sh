#!/bin/sh
# runs checks sequentially, logging to /tmp/runall/<id>.log ; usage: runall.sh <tier> [ids...]
tier=${1:-quick}; shift
ids="$@"
[ -z "$ids" ] && ids="C15 C17 C16 C18 C13 C19 C11 C09 C08 C05 C14 C06 C03 C07 C02 C01 C04 C12"
mkdir -p /tmp/runall
for p in $ids; do
  s=$(date +%s)
  /verif/check $p $tier > /tmp/runall/$p.log 2>&1
  rc=$?
  e=$(date +%s)
  echo "$p rc=$rc wall=$((e-s))s" >> /tmp/runall/summary.txt
done
